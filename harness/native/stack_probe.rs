// Native replay of C18 findings: runs one splay-tree scenario on a 3*10^6-key chain in a child
// process, once on the main thread (8 MiB stack) and once on a 2 MiB thread.  Public API only.
// usage: stack_probe <scenario>            -> exit 0 if both children survive, 1 if one died
//        stack_probe <scenario> child main|thread
use geo_booleanop::splay::{SplaySet, SplayTree};
use std::cmp::Ordering;

const N: i32 = 3_000_000;
type T = SplayTree<i32, i32, fn(&i32, &i32) -> Ordering>;
fn c(a: &i32, b: &i32) -> Ordering {
    a.cmp(b)
}
fn left_chain() -> T {
    let mut t: T = SplayTree::new(c as fn(&i32, &i32) -> Ordering);
    for i in 0..N {
        t.insert(i, i);
    }
    t
}
fn right_chain() -> T {
    let mut t: T = SplayTree::new(c as fn(&i32, &i32) -> Ordering);
    for i in (0..N).rev() {
        t.insert(i, i);
    }
    t
}
fn chain(left: bool) -> T {
    if left {
        left_chain()
    } else {
        right_chain()
    }
}

fn scenario(name: &str) {
    match name {
        "drop_left_chain" => drop(left_chain()),
        "drop_right_chain" => drop(right_chain()),
        "clear_left_chain" | "clear_right_chain" => {
            let mut t = chain(name == "clear_left_chain");
            t.clear();
            assert!(t.len() == 0);
            std::mem::forget(t);
        }
        "into_iter_partial_left" => {
            let mut it = left_chain().into_iter();
            let _ = it.next_back();
            drop(it);
        }
        "into_iter_partial_right" => {
            let mut it = right_chain().into_iter();
            let _ = it.next();
            drop(it);
        }
        "into_iter_unused" => drop(left_chain().into_iter()),
        "set_drop" => {
            let mut s = SplaySet::new(c as fn(&i32, &i32) -> Ordering);
            for i in 0..N {
                s.insert(i);
            }
            drop(s);
        }
        "get_far_end_left" => {
            let t = left_chain();
            let _ = t.get(&0);
            std::mem::forget(t);
        }
        "get_far_end_right" => {
            let t = right_chain();
            let _ = t.get(&(N - 1));
            std::mem::forget(t);
        }
        "next_prev" => {
            let t = left_chain();
            let _ = t.next(&0);
            let _ = t.prev(&(N - 1));
            std::mem::forget(t);
        }
        "min_max" => {
            let t = right_chain();
            let _ = t.min();
            let _ = t.max();
            std::mem::forget(t);
        }
        "insert_far_end" => {
            let mut t = left_chain();
            t.insert(0, 7);
            std::mem::forget(t);
        }
        "remove_max_right_chain" => {
            let mut t = right_chain();
            t.remove(&(N - 1));
            std::mem::forget(t);
        }
        "remove_min_left_chain" => {
            let mut t = left_chain();
            t.remove(&0);
            std::mem::forget(t);
        }
        "remove_root_left_chain" => {
            let mut t = left_chain();
            t.remove(&(N - 1));
            std::mem::forget(t);
        }
        "remove_root_right_chain" => {
            let mut t = right_chain();
            t.remove(&0);
            std::mem::forget(t);
        }
        "remove_root_over_right_chain" => {
            let mut t = right_chain();
            t.insert(N + 5, 0); // new root above everything; its left subtree keeps a long right spine
            t.remove(&(N + 5));
            std::mem::forget(t);
        }
        _ => panic!("unknown scenario {}", name),
    }
}

fn main() {
    let a: Vec<String> = std::env::args().collect();
    if a.len() >= 4 && a[2] == "child" {
        let name = a[1].clone();
        if a[3] == "thread" {
            let h = std::thread::Builder::new().stack_size(2 * 1024 * 1024).spawn(move || scenario(&name)).unwrap();
            h.join().unwrap();
        } else {
            scenario(&name);
        }
        return;
    }
    let mut died = 0;
    for mode in ["main", "thread"] {
        let st = std::process::Command::new(&a[0]).args([a[1].as_str(), "child", mode]).status().unwrap();
        println!("scenario {} on {}: {:?}", a[1], mode, st);
        if !st.success() {
            died += 1;
        }
    }
    std::process::exit(if died > 0 { 1 } else { 0 });
}
