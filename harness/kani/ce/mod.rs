//! Kani harnesses injected as `crate::boolean::connect_edges::verif_kani` (child of connect_edges.rs:
//! sees `order_events`, `precompute_iteration_order`, `get_next_pos`).  L-NEST, L-ITER, L-SORT.
#![allow(dead_code, unused_imports, clippy::all)]
use super::super::helper::Float;
use super::super::sweep_event::{ResultTransition, SweepEvent};
use super::super::verif_kani::common::*;
use super::{order_events, precompute_iteration_order, Contour};
use crate::verif_params as P;
use geo_types::Coord;
use std::rc::Rc;

fn c(x: f64, y: f64) -> Coord<f64> {
    Coord { x, y }
}

/// forest of three contours of a concrete shape (hole_of), symbolic depths: a hole's parent is an
/// exterior contour created before it (invariant of connect_edges); the five shapes are all there are
struct Forest {
    v: Vec<Contour<f64>>,
    hole_of: [i32; 3],
    depth: [i32; 3],
    nholes: [usize; 3],
}
fn forest(hole_of: [i32; 3]) -> Forest {
    let mut v: Vec<Contour<f64>> = Vec::with_capacity(3);
    let mut depth = [0i32; 3];
    let mut nholes = [0usize; 3];
    macro_rules! add {
        ($i:expr) => {
            let d: i32 = kani::any();
            kani::assume(d >= 0 && d < 4);
            depth[$i] = d;
            let h = hole_of[$i];
            v.push(Contour::new(if h < 0 { None } else { Some(h) }, d));
            if h >= 0 {
                v[h as usize].hole_ids.push($i as i32);
                nholes[h as usize] += 1;
            }
        };
    }
    add!(0);
    add!(1);
    add!(2);
    Forest { v, hole_of, depth, nholes }
}

/// the four parent cases of Fig. 4 (Martinez et al.) for every forest of the shape and every lower edge
fn nest_cases_body(shape: [i32; 3]) {
    let mut f = forest(shape);
    let ev = seg_c(c(1., 1.), c(3., 1.), true, 1);
    // the lower result edge passes below the new contour's first vertex, or leaves from that very vertex
    // (a hole touching its parent, or two holes touching, at their common leftmost vertex)
    let same_vertex: bool = kani::any();
    let lower = seg_c(if same_vertex { c(1., 1.) } else { c(0., 0.) }, c(4., 0.), true, 1);
    let has_lower: bool = kani::any();
    let lower_id: i32 = kani::any();
    kani::assume(lower_id >= 0 && lower_id < 3);
    let out_in: bool = kani::any();
    if has_lower {
        lower.l.set_output_contour_id(lower_id);
        lower.l.set_result_transition(if out_in { ResultTransition::OutIn } else { ResultTransition::InOut });
        ev.l.set_prev_in_result(&lower.l);
    }
    let new_id = 3;
    let cnt = Contour::initialize_from_context(&ev.l, &mut f.v, new_id);

    let li = lower_id as usize;
    // expected parent (-1: exterior) and depth
    let (exp_parent, exp_depth): (i32, i32) = if !has_lower {
        (-1, 0)
    } else if !out_in {
        (-1, f.depth[li])
    } else if f.hole_of[li] < 0 {
        (lower_id, f.depth[li] + 1)
    } else {
        (f.hole_of[li], f.depth[li])
    };
    assert!(cnt.hole_of == if exp_parent < 0 { None } else { Some(exp_parent) }, "parent: none without lower edge or above an InOut edge; the lower contour (or its parent, if it is a hole) above an OutIn edge");
    assert!(cnt.is_exterior() == (exp_parent < 0), "is_exterior iff no parent");
    assert!(cnt.depth == exp_depth, "depth: 0 / same as lower / lower + 1 when it becomes a hole of an exterior");
    assert!(cnt.points.is_empty() && cnt.hole_ids.is_empty(), "a fresh contour has no points and no holes");
    macro_rules! unchanged {
        ($i:expr) => {
            let gained = exp_parent == $i as i32;
            assert!(f.v[$i].hole_ids.len() == f.nholes[$i] + gained as usize, "exactly the parent gains one hole id");
            if gained {
                assert!(f.v[$i].hole_ids[f.nholes[$i]] == new_id, "the parent's new hole id is the new contour");
            }
            assert!(f.v[$i].hole_of == if f.hole_of[$i] < 0 { None } else { Some(f.hole_of[$i]) } && f.v[$i].depth == f.depth[$i], "no other field of an existing contour changes");
        };
    }
    unchanged!(0);
    unchanged!(1);
    unchanged!(2);
    kani::cover!(has_lower && out_in && f.hole_of[li] < 0, "above an exterior, inside: hole of it");
    kani::cover!(has_lower && !out_in, "above an InOut edge: exterior");
    kani::cover!(has_lower && out_in && same_vertex, "lower edge leaves from the contour's own first vertex");
    kani::cover!(!has_lower, "nothing below");
    std::mem::forget((f.v, ev, lower, cnt));
}
macro_rules! nest {
    ($name:ident, $shape:expr) => {
        #[kani::proof]
        #[kani::unwind(5)]
        fn $name() {
            nest_cases_body($shape)
        }
    };
}
nest!(nest_cases_flat, [-1, -1, -1]);
nest!(nest_cases_h20, [-1, -1, 0]);
nest!(nest_cases_h21, [-1, -1, 1]);
nest!(nest_cases_h10, [-1, 0, -1]);
nest!(nest_cases_h10_h20, [-1, 0, 0]);

/// C03: the lower edge's contour id may be unassigned (-1) when the sweep was inconsistent; the
/// InOut branch guards this (release build), the OutIn branch indexes with it.
fn nest_index_body(out_in: bool) {
    let mut f = forest([-1, 0, -1]);
    let ev = seg_c(c(1., 1.), c(3., 1.), true, 1);
    let lower = seg_c(c(0., 0.), c(4., 0.), true, 1);
    lower.l.set_output_contour_id(-1);
    lower.l.set_result_transition(if out_in { ResultTransition::OutIn } else { ResultTransition::InOut });
    ev.l.set_prev_in_result(&lower.l);
    let cnt = Contour::initialize_from_context(&ev.l, &mut f.v, 3);
    kani::cover!(cnt.depth >= 0, "call returns");
    std::mem::forget((f.v, ev, lower, cnt));
}
#[kani::proof]
#[kani::unwind(5)]
fn nest_index_unassigned_outin() {
    nest_index_body(true)
}
#[kani::proof]
#[kani::unwind(5)]
fn nest_index_unassigned_inout() {
    nest_index_body(false)
}

/// L-ITER: precompute_iteration_order on up to 5 entries (value, is_left), sorted as order_events
/// leaves them: grouped by value, within a group R entries before L entries.
fn iter_order_body(n: usize) {
    let mut data = [(0u8, false); 5];
    let mut i = 0;
    while i < 5 {
        let v: u8 = kani::any();
        let l: bool = kani::any();
        kani::assume(v < 3);
        if i > 0 && i < n {
            // sorted: non-decreasing value; within equal values R (false) before L (true)
            kani::assume(data[i - 1].0 <= v);
            kani::assume(data[i - 1].0 != v || !data[i - 1].1 || l);
        }
        data[i] = (v, l);
        i += 1;
    }
    let map = precompute_iteration_order(&data[..n], |a, b| a.0 == b.0, |e| e.1);
    assert!(map.len() == n, "one successor per entry");
    let mut seen = [false; 5];
    let mut j = 0;
    while j < n {
        let m = map[j];
        assert!(m < n, "successor index in range");
        assert!(data[m].0 == data[j].0, "the successor belongs to the same vertex (same point)");
        assert!(!seen[m], "the map is a permutation (every entry has exactly one predecessor)");
        seen[m] = true;
        // full specification: the group of j is the contiguous index range [g0, g1], its right events
        // are [g0, r_end), its left events [r_end, g1]
        let mut g0 = j;
        while g0 > 0 && data[g0 - 1].0 == data[j].0 {
            g0 -= 1;
        }
        let mut g1 = j;
        while g1 + 1 < n && data[g1 + 1].0 == data[j].0 {
            g1 += 1;
        }
        let mut r_end = g0;
        while r_end <= g1 && !data[r_end].1 {
            r_end += 1;
        }
        let (has_r, has_l) = (r_end > g0, r_end <= g1);
        let expect = if !data[j].1 {
            if j + 1 < r_end {
                j + 1
            } else if has_l {
                g1
            } else {
                g0
            }
        } else if j > r_end {
            j - 1
        } else if has_r {
            g0
        } else {
            g1
        };
        assert!(m == expect, "right events ascending, then the left events descending, then back to the first right event");
        j += 1;
    }
    // following the map from any entry returns to it within the size of its group (a single cycle per vertex)
    let start: usize = kani::any();
    kani::assume(start < n);
    let group = {
        let mut g = 0;
        let mut k = 0;
        while k < n {
            if data[k].0 == data[start].0 {
                g += 1;
            }
            k += 1;
        }
        g
    };
    let mut pos = start;
    let mut steps = 0;
    let mut closed = false;
    while steps < 5 {
        pos = map[pos];
        steps += 1;
        if pos == start {
            closed = true;
            break;
        }
    }
    assert!(closed && steps == group, "each vertex group forms exactly one cycle covering the whole group");
    kani::cover!(group == n, "all entries at one vertex");
    kani::cover!(group == 2 && data[start].1, "vertex of degree two, left event");
}
#[kani::proof]
#[kani::unwind(7)]
fn iter_order_n3() {
    iter_order_body(3)
}
#[kani::proof]
#[kani::unwind(7)]
fn iter_order_n4() {
    iter_order_body(4)
}
#[kani::proof]
#[kani::unwind(7)]
fn iter_order_n5() {
    iter_order_body(5)
}

/// L-SORT (thorough): order_events on three result events: terminates within the unwind bound, output
/// sorted w.r.t. the event order, a permutation of the input, other_pos pairs partners.
#[kani::proof]
#[kani::unwind(5)]
#[kani::stub(robust::orient2d, super::super::verif_kani::common::orient2d_stub)]
fn sort3() {
    let n = 3u8;
    // one full segment (both events in the result) and one dangling left event of another segment
    let a = IP::any(n);
    let b = IP::any(n);
    kani::assume(a != b);
    let p = IP::any(n);
    let q = IP::any(n);
    kani::assume(p != q);
    let s1 = seg::<f64>(a, b, true, 1);
    let s2 = seg::<f64>(p, q, false, 2);
    // validity of co-occurring events (same operand never collinear at a common point) is implied by different operands
    s1.l.set_result_transition(ResultTransition::OutIn);
    s2.l.set_result_transition(ResultTransition::InOut);
    let input = vec![s2.r.clone(), s1.r.clone(), s2.l.clone(), s1.l.clone()];
    let out = order_events(&input);
    assert!(out.len() == 4, "both events of every result segment are kept");
    let mut i = 1;
    while i < 4 {
        assert!(!(out[i - 1] < out[i]), "result events are sorted in sweep order");
        i += 1;
    }
    let mut k = 0;
    while k < 4 {
        let o = out[k].get_other_pos();
        assert!(o >= 0 && o < 4 && o as usize != k, "other_pos is a valid index of another entry");
        let partner = out[k].get_other_event().unwrap();
        assert!(Rc::ptr_eq(&out[o as usize], &partner), "other_pos points at the partner event");
        std::mem::forget(partner);
        k += 1;
    }
    kani::cover!(a == p, "common point");
    std::mem::forget((out, input, s1, s2));
}
