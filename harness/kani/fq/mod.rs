//! Kani harnesses injected as `crate::boolean::fill_queue::verif_kani` (child of fill_queue.rs:
//! sees the private `process_polygon`).  L-FILL-EDGE and L-FILL-IDS (C13, C07, C09's box clause).
#![allow(dead_code, unused_imports, clippy::all)]
use super::super::helper::{BoundingBox, Float};
use super::super::sweep_event::{EdgeType, ResultTransition, SweepEvent};
use super::super::verif_kani::common::*;
use super::super::Operation;
use super::{fill_queue, process_polygon};
use crate::verif_params as P;
use geo_types::{Coord, LineString, Polygon};
use std::collections::BinaryHeap;
use std::rc::Rc;

fn inf_box<F: Float>() -> BoundingBox<F> {
    BoundingBox {
        min: Coord { x: F::infinity(), y: F::infinity() },
        max: Coord { x: F::neg_infinity(), y: F::neg_infinity() },
    }
}

/// one symbolic edge a -> b (written in either direction, possibly collapsed)
fn fill_edge_body<F: Float>() {
    let n = P::N;
    let a = IP::any(n);
    let b = IP::any(n);
    let is_subject: bool = kani::any();
    let is_ext: bool = kani::any();
    let cid: u32 = kani::any();
    kani::assume(cid < 8);
    let ring = LineString(vec![a.c::<F>(), b.c::<F>()]);
    let fresh: bool = kani::any();
    let old_box: BoundingBox<F> = if fresh {
        inf_box()
    } else {
        let lo = IP::any(n);
        let hi = IP::any(n);
        kani::assume(lo.x <= hi.x && lo.y <= hi.y);
        BoundingBox { min: lo.c(), max: hi.c() }
    };
    let mut bbox = old_box;
    let mut q: BinaryHeap<Rc<SweepEvent<F>>> = BinaryHeap::new();

    process_polygon(&ring, is_subject, cid, &mut q, &mut bbox, is_ext);

    let v = q.into_vec();
    if a == b {
        assert!(v.len() == 0, "a collapsed edge creates no event");
        assert!(bbox == old_box, "a collapsed edge leaves the bounding box unchanged");
    } else {
        assert!(v.len() == 2, "a non-degenerate edge creates exactly one event pair");
        let (e1, e2) = (&v[0], &v[1]);
        let o1 = e1.get_other_event();
        let o2 = e2.get_other_event();
        assert!(o1.is_some() && o2.is_some(), "both events are linked");
        assert!(Rc::ptr_eq(o1.as_ref().unwrap(), e2) && Rc::ptr_eq(o2.as_ref().unwrap(), e1), "the two events are mutually linked");
        assert!(e1.is_left() != e2.is_left(), "exactly one event of the pair is the left event");
        let (l, r) = if e1.is_left() { (e1, e2) } else { (e2, e1) };
        let (pl, pr) = if a.lex_lt(b) { (a, b) } else { (b, a) };
        assert!(l.point == pl.c() && r.point == pr.c(), "the left event is the lexicographically smaller endpoint, whichever way the edge is written");
        assert!(l.is_before(r), "the left event precedes the right event in sweep order");
        assert!(
            e1.is_subject == is_subject && e2.is_subject == is_subject && e1.contour_id == cid && e2.contour_id == cid
                && e1.is_exterior_ring == is_ext && e2.is_exterior_ring == is_ext,
            "operand tag, contour id and ring kind are copied to both events"
        );
        assert!(
            e1.get_edge_type() == EdgeType::Normal && e2.get_edge_type() == EdgeType::Normal && !e1.is_in_result() && !e2.is_in_result()
                && e1.get_prev_in_result().is_none() && e1.get_output_contour_id() == -1,
            "fresh events carry no classification"
        );
        // box' = box united with the start point (every vertex of a closed ring starts one edge)
        let s: Coord<F> = a.c();
        assert!(
            bbox.min.x == old_box.min.x.min(s.x) && bbox.min.y == old_box.min.y.min(s.y) && bbox.max.x == old_box.max.x.max(s.x) && bbox.max.y == old_box.max.y.max(s.y),
            "the bounding box is extended by exactly the start point of the edge"
        );
        std::mem::forget((o1, o2));
    }
    kani::cover!(a == b, "collapsed edge");
    kani::cover!(a != b && b.lex_lt(a), "edge written right to left");
    kani::cover!(a != b && a.x == b.x && b.y < a.y, "vertical edge written downwards");
    kani::cover!(a != b && fresh, "first edge of an operand");
    std::mem::forget((v, ring));
}
macro_rules! fill_edge {
    ($name:ident, $f:ty) => {
        #[kani::proof]
        #[kani::unwind(4)]
        #[kani::stub(robust::orient2d, super::super::verif_kani::common::orient2d_stub)]
        fn $name() {
            fill_edge_body::<$f>()
        }
    };
}
fill_edge!(fill_edge_f64, f64);
fill_edge!(fill_edge_f32, f32);

/// two consecutive edges a -> b -> c of one ring: each edge is handled on its own (a collapsed edge
/// anywhere in the ring creates nothing, the others one pair each).  The first edge is concrete
/// (collapsed or not, harness parameter), the third vertex symbolic; the heap is environment here
/// (push recorded), what is pushed is the subject.
fn fill_two_edges_body(first_collapsed: bool) {
    let n = if P::N > 3 { 3 } else { P::N };
    let a = IP { x: 1, y: 1 };
    let b = if first_collapsed { a } else { IP { x: 2, y: 0 } };
    let c = IP::any(n);
    let ring = LineString(vec![a.c::<f64>(), b.c::<f64>(), c.c::<f64>()]);
    let mut bbox = inf_box::<f64>();
    let mut q: BinaryHeap<Rc<SweepEvent<f64>>> = BinaryHeap::new();
    unsafe {
        NPUSHED = 0;
    }
    process_polygon(&ring, true, 1, &mut q, &mut bbox, true);
    let npushed = unsafe { NPUSHED };
    let (e1, e2) = (a != b, b != c);
    assert!(npushed == 2 * (e1 as usize + e2 as usize), "exactly one event pair per non-degenerate edge, wherever the collapsed edges are in the ring");
    let mut i = 0;
    while i < npushed && i < 4 {
        let e = pushed::<f64>(i);
        let o = e.get_other_event().unwrap();
        assert!(e.point != o.point, "no event pair of zero length");
        std::mem::forget((e, o));
        i += 1;
    }
    // box = hull of the start points of the non-degenerate edges
    let (pa, pb): (Coord<f64>, Coord<f64>) = (a.c(), b.c());
    if e1 && e2 {
        assert!(bbox.min.x == pa.x.min(pb.x) && bbox.max.x == pa.x.max(pb.x) && bbox.min.y == pa.y.min(pb.y) && bbox.max.y == pa.y.max(pb.y), "the box is the hull of both start points");
    } else if e1 {
        assert!(bbox.min == pa && bbox.max == pa, "the box is the start point of the only real edge");
    } else if e2 {
        assert!(bbox.min == pb && bbox.max == pb, "the box is the start point of the only real edge");
    } else {
        assert!(bbox == inf_box::<f64>(), "only collapsed edges: the box stays at its initial value");
    }
    kani::cover!(!e2, "repeated last vertex");
    kani::cover!(first_collapsed || (e2 && a == c), "third vertex back at the first (or: first edge collapsed)");
    kani::cover!(e2, "second edge real");
    std::mem::forget((q, ring));
}
#[kani::proof]
#[kani::unwind(6)]
#[kani::stub(robust::orient2d, super::super::verif_kani::common::orient2d_stub)]
#[kani::stub(std::collections::BinaryHeap::push, super::super::verif_kani::common::heap_push_record)]
fn fill_two_edges_real_first() {
    fill_two_edges_body(false)
}
#[kani::proof]
#[kani::unwind(6)]
#[kani::stub(robust::orient2d, super::super::verif_kani::common::orient2d_stub)]
#[kani::stub(std::collections::BinaryHeap::push, super::super::verif_kani::common::heap_push_record)]
fn fill_two_edges_collapsed_first() {
    fill_two_edges_body(true)
}

// ----------------------------------------------------------------------------------- L-FILL-IDS
// `process_polygon` replaced by a recorder: the ring/tag/id protocol of fill_queue's own loops.
#[derive(Clone, Copy)]
struct Call {
    ring: *const (),
    is_subject: bool,
    contour_id: u32,
    is_exterior: bool,
}
const MAXCALLS: usize = 10;
static mut CALLS: [Call; MAXCALLS] = [Call { ring: std::ptr::null(), is_subject: false, contour_id: 0, is_exterior: false }; MAXCALLS];
static mut NCALLS: usize = 0;

pub fn process_polygon_recorder<F: Float>(
    contour_or_hole: &LineString<F>,
    is_subject: bool,
    contour_id: u32,
    _event_queue: &mut BinaryHeap<Rc<SweepEvent<F>>>,
    _bbox: &mut BoundingBox<F>,
    is_exterior_ring: bool,
) {
    unsafe {
        if NCALLS < MAXCALLS {
            CALLS[NCALLS] = Call { ring: contour_or_hole as *const LineString<F> as *const (), is_subject, contour_id, is_exterior: is_exterior_ring };
        }
        NCALLS += 1;
    }
}

fn any_op() -> Operation {
    match kani::any::<u8>() & 3 {
        0 => Operation::Intersection,
        1 => Operation::Union,
        2 => Operation::Xor,
        _ => Operation::Difference,
    }
}
/// operand of np polygons (np in 0..=2), polygon k has nh[k] holes (0..=1); rings are empty (the
/// recorder identifies them by address)
fn operand(np: u8, h0: bool, h1: bool) -> Vec<Polygon<f64>> {
    let mut v = Vec::with_capacity(2);
    if np >= 1 {
        v.push(Polygon::new(LineString(vec![]), if h0 { vec![LineString(vec![])] } else { vec![] }));
    }
    if np >= 2 {
        v.push(Polygon::new(LineString(vec![]), if h1 { vec![LineString(vec![])] } else { vec![] }));
    }
    v
}

fn fill_ids_body(ns: u8, nc: u8, sh0: bool, sh1: bool, ch0: bool, ch1: bool) {
    let subject = operand(ns, sh0, sh1);
    let clipping = operand(nc, ch0, ch1);
    let op = any_op();
    let mut sb = inf_box::<f64>();
    let mut cb = inf_box::<f64>();
    unsafe {
        NCALLS = 0;
    }
    let q = fill_queue(&subject, &clipping, &mut sb, &mut cb, op);
    assert!(q.len() == 0, "fill_queue itself pushes nothing");

    // expected protocol
    let mut k = 0usize;
    let mut id = 0u32;
    macro_rules! expect {
        ($ring:expr, $subj:expr, $id:expr, $ext:expr, $msg:expr) => {
            assert!(k < unsafe { NCALLS }, "every ring is passed on");
            let c = unsafe { CALLS[k] };
            assert!(c.ring == ($ring as *const LineString<f64> as *const ()) && c.is_subject == $subj && c.contour_id == $id && c.is_exterior == $ext, $msg);
            k += 1;
        };
    }
    macro_rules! subj {
        ($i:expr) => {
            if $i < subject.len() {
                id += 1;
                expect!(subject[$i].exterior(), true, id, true, "subject exterior: tagged subject, fresh contour id, exterior");
                if subject[$i].interiors().len() > 0 {
                    expect!(&subject[$i].interiors()[0], true, id, false, "subject hole: same id as its exterior, not exterior");
                }
            }
        };
    }
    macro_rules! clip {
        ($j:expr) => {
            if $j < clipping.len() {
                let ext = op != Operation::Difference;
                if ext {
                    id += 1;
                }
                expect!(clipping[$j].exterior(), false, id, ext, "clipping exterior: tagged clipping; under Difference it keeps the last subject id and is not an exterior");
                if clipping[$j].interiors().len() > 0 {
                    expect!(&clipping[$j].interiors()[0], false, id, false, "clipping hole: same id, not exterior");
                }
            }
        };
    }
    subj!(0);
    subj!(1);
    clip!(0);
    clip!(1);
    assert!(k == unsafe { NCALLS }, "every ring is passed on exactly once and nothing else");
    kani::cover!(op == Operation::Difference, "difference");
    kani::cover!(op == Operation::Xor, "xor");
    std::mem::forget((subject, clipping, q));
}
macro_rules! fill_ids_h {
    ($name:ident, $ns:expr, $nc:expr, $a:expr, $b:expr, $c:expr, $d:expr) => {
        #[kani::proof]
        #[kani::unwind(4)]
        #[kani::stub(process_polygon, process_polygon_recorder)]
        fn $name() {
            fill_ids_body($ns, $nc, $a, $b, $c, $d)
        }
    };
}
fill_ids_h!(fill_ids_2h_2h, 2, 2, true, false, false, true);
fill_ids_h!(fill_ids_1_1h, 1, 1, false, false, true, false);
fill_ids_h!(fill_ids_0_2, 0, 2, false, false, true, true);
fill_ids_h!(fill_ids_2_0, 2, 0, false, true, false, false);
