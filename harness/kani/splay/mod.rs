//! Kani harnesses injected as `crate::splay::tree::verif_kani` (child of tree.rs: sees `Node`,
//! `root_mut`, `splay`, the fields of `SplayTree` and `IntoIter`).
#![allow(dead_code, unused_imports, clippy::all)]
use super::super::node::Node;
use super::super::set::SplaySet;
use super::{IntoIter, SplayTree};
use std::cmp::Ordering;

pub mod h_depth;
pub mod h_seq;

/// comparator as a closure (zero-sized, statically dispatched): with a function pointer CBMC would
/// have to consider every function of that signature as a possible call target
pub fn new_tree_generic() -> SplayTree<u8, u8, impl Fn(&u8, &u8) -> Ordering> {
    SplayTree::new(|a: &u8, b: &u8| a.cmp(b))
}

/// left chain  n-1 <- ... <- 1 <- 0 (root = n-1), built without any tree operation
pub fn left_chain(n: u8) -> Option<Box<Node<u8, u8>>> {
    let mut cur: Option<Box<Node<u8, u8>>> = None;
    let mut i = 0u8;
    while i < n {
        cur = Some(Node::new_boxed(i, i, cur, None));
        i += 1;
    }
    cur
}
/// right chain 0 -> 1 -> ... -> n-1 (root = 0)
pub fn right_chain(n: u8) -> Option<Box<Node<u8, u8>>> {
    let mut cur: Option<Box<Node<u8, u8>>> = None;
    let mut i = n;
    while i > 0 {
        i -= 1;
        cur = Some(Node::new_boxed(i, i, None, cur));
    }
    cur
}
pub fn install<C: Fn(&u8, &u8) -> Ordering>(t: &mut SplayTree<u8, u8, C>, root: Option<Box<Node<u8, u8>>>, n: usize) {
    *t.root_mut() = root;
    t.size = n;
}
