//! Kani harnesses injected as `crate::splay::tree::verif_kani` (child of tree.rs: sees `Node`,
//! `root_mut`, `splay`, the fields of `SplayTree` and `IntoIter`).
#![allow(dead_code, unused_imports, clippy::all)]
use super::super::node::Node;
use super::super::set::SplaySet;
use super::{IntoIter, SplayTree};
use std::cmp::Ordering;

mod h_depth;
mod h_seq;

pub type T = SplayTree<u8, u8, fn(&u8, &u8) -> Ordering>;
pub fn cmp_u8(a: &u8, b: &u8) -> Ordering {
    a.cmp(b)
}
pub fn new_tree() -> T {
    SplayTree::new(cmp_u8 as fn(&u8, &u8) -> Ordering)
}

/// left chain  n-1 <- ... <- 1 <- 0 (root = n-1), built without any tree operation
pub fn left_chain(n: u8) -> Option<Box<Node<u8, u8>>> {
    let mut cur: Option<Box<Node<u8, u8>>> = None;
    let mut i = 0u8;
    while i < n {
        cur = Some(Node::new_boxed(i, i, cur, None));
        i += 1;
    }
    cur
}
/// right chain 0 -> 1 -> ... -> n-1 (root = 0)
pub fn right_chain(n: u8) -> Option<Box<Node<u8, u8>>> {
    let mut cur: Option<Box<Node<u8, u8>>> = None;
    let mut i = n;
    while i > 0 {
        i -= 1;
        cur = Some(Node::new_boxed(i, i, None, cur));
    }
    cur
}
pub fn install(t: &mut T, root: Option<Box<Node<u8, u8>>>, n: usize) {
    *t.root_mut() = root;
    t.size = n;
}
