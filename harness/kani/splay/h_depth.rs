//! C18 / L-DEPTH: recursion depth of splay-tree work must not grow with the number of nodes.
//! CBMC has no stack model, but it reports *recursion unwinding assertions* separately from loop
//! unwinding assertions.  Each harness works on a chain of D = 12 nodes under an unwind bound of 4:
//! a routine whose recursion follows the chain fails a recursion assertion; an iterative routine
//! only exhausts loop bounds (ignored in this mode, the runner's verdict is on recursion checks only).
use super::*;

const D: u8 = 12;

fn chain_tree(left: bool) -> SplayTree<u8, u8, impl Fn(&u8, &u8) -> Ordering> {
    let mut t = new_tree_generic();
    // straight-line construction (the builder loops are bounded by the same unwind limit)
    let mut cur: Option<Box<Node<u8, u8>>> = None;
    macro_rules! push {
        ($i:expr) => {
            cur = if left {
                Some(Node::new_boxed($i, $i, cur, None))
            } else {
                Some(Node::new_boxed(D - 1 - $i, D - 1 - $i, None, cur))
            };
        };
    }
    push!(0); push!(1); push!(2); push!(3); push!(4); push!(5);
    push!(6); push!(7); push!(8); push!(9); push!(10); push!(11);
    install(&mut t, cur, D as usize);
    t
}

macro_rules! depth_teardown {
    ($name:ident, $full:ident, $left:expr, |$t:ident| $body:block) => {
        #[kani::proof]
        #[kani::unwind(8)]
        fn $name() {
            #[allow(unused_mut)]
            let mut $t = chain_tree($left);
            $body;
        }
        /// same work under a bound that covers every loop: must pass completely (no check cut off)
        #[kani::proof]
        #[kani::unwind(30)]
        fn $full() {
            #[allow(unused_mut)]
            let mut $t = chain_tree($left);
            $body;
            kani::cover!(true, "end of teardown reached");
        }
    };
}
depth_teardown!(depth_drop_left_chain, depth_drop_left_chain_full, true, |t| { drop(t); });
depth_teardown!(depth_drop_right_chain, depth_drop_right_chain_full, false, |t| { drop(t); });
depth_teardown!(depth_clear_left_chain, depth_clear_left_chain_full, true, |t| { t.clear(); std::mem::forget(t); });
depth_teardown!(depth_clear_right_chain, depth_clear_right_chain_full, false, |t| { t.clear(); std::mem::forget(t); });
// a partly consumed iterator still owns a chain
depth_teardown!(depth_into_iter_partial_left, depth_into_iter_partial_left_full, true, |t| { let mut it = t.into_iter(); let _ = it.next_back(); drop(it); });
depth_teardown!(depth_into_iter_partial_right, depth_into_iter_partial_right_full, false, |t| { let mut it = t.into_iter(); let _ = it.next(); drop(it); });
depth_teardown!(depth_into_iter_unused, depth_into_iter_unused_full, true, |t| { let it = t.into_iter(); drop(it); });

#[kani::proof]
#[kani::unwind(8)]
fn depth_set_drop() {
    // through the public SplaySet API only (as `subdivide` uses it): monotone insertion builds the chain
    let mut s = SplaySet::new(|a: &u8, b: &u8| a.cmp(b));
    s.insert(0); s.insert(1); s.insert(2); s.insert(3); s.insert(4); s.insert(5);
    s.insert(6); s.insert(7); s.insert(8); s.insert(9); s.insert(10); s.insert(11);
    drop(s);
}

/// lookups and updates on a chain must not reach any function that recurses along the chain
macro_rules! depth_op {
    ($name:ident, $left:expr, |$t:ident| $body:block) => {
        #[kani::proof]
        #[kani::unwind(8)]
        fn $name() {
            #[allow(unused_mut)]
            let mut $t = chain_tree($left);
            $body;
            kani::cover!(true, "end of operation reached");
            std::mem::forget($t);
        }
    };
}
depth_op!(depth_get_far_end_left, true, |t| { let _ = t.get(&0); });
depth_op!(depth_get_far_end_right, false, |t| { let _ = t.get(&(D - 1)); });
depth_op!(depth_next_prev, true, |t| { let _ = t.next(&0); let _ = t.prev(&(D - 1)); });
depth_op!(depth_min_max, false, |t| { let _ = t.min(); let _ = t.max(); });
depth_op!(depth_insert_far_end, true, |t| { let _ = t.insert(0, 7); });
depth_op!(depth_remove_max_right_chain, false, |t| { let _ = t.remove(&(D - 1)); });
// root = 200 with a 12-node right chain as left subtree: remove(root) must join without recursing
// along that chain (the splay of the left part needs 6 iterations, a recursive join 12 frames)
depth_op!(depth_remove_root_over_right_chain, false, |t| {
    let old = t.root_mut().take();
    *t.root_mut() = Some(Node::new_boxed(200, 0, old, None));
    t.size += 1;
    let r = t.remove(&200);
    assert!(r == Some(0));
});
depth_op!(depth_remove_min_left_chain, true, |t| { let _ = t.remove(&0); });
depth_op!(depth_remove_root_left_chain, true, |t| { let _ = t.remove(&(D - 1)); });
depth_op!(depth_remove_root_right_chain, false, |t| { let _ = t.remove(&0); });
