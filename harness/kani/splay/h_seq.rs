//! C17 / L-SPLAY: the splay map against a sorted-array reference, one harness per operation-kind
//! sequence; inside each harness ALL keys and values are symbolic (keys < KMAX), so the solver covers
//! every key order, duplicates, absent keys and thereby every tree shape reachable by the sequence.
use super::*;

pub const KMAX: u8 = 4;

/// reference sorted map over the key universe 0..KMAX
#[derive(Clone, Copy)]
pub struct Model {
    present: [bool; KMAX as usize],
    val: [u8; KMAX as usize],
}
impl Model {
    pub fn new() -> Model {
        Model { present: [false; KMAX as usize], val: [0; KMAX as usize] }
    }
    fn insert(&mut self, k: u8, v: u8) -> Option<u8> {
        let old = self.get(k);
        self.present[k as usize] = true;
        self.val[k as usize] = v;
        old
    }
    fn remove(&mut self, k: u8) -> Option<u8> {
        let old = self.get(k);
        self.present[k as usize] = false;
        old
    }
    fn get(&self, k: u8) -> Option<u8> {
        if self.present[k as usize] { Some(self.val[k as usize]) } else { None }
    }
    fn len(&self) -> usize {
        (self.present[0] as usize) + (self.present[1] as usize) + (self.present[2] as usize) + (self.present[3] as usize)
    }
    fn next(&self, k: u8) -> Option<(u8, u8)> {
        // smallest present key > k (hand-unrolled: KMAX = 4)
        if k < 1 && self.present[1] { return Some((1, self.val[1])); }
        if k < 2 && self.present[2] { return Some((2, self.val[2])); }
        if k < 3 && self.present[3] { return Some((3, self.val[3])); }
        None
    }
    fn prev(&self, k: u8) -> Option<(u8, u8)> {
        if k > 2 && self.present[2] { return Some((2, self.val[2])); }
        if k > 1 && self.present[1] { return Some((1, self.val[1])); }
        if k > 0 && self.present[0] { return Some((0, self.val[0])); }
        None
    }
    fn min(&self) -> Option<u8> {
        if self.present[0] { Some(0) } else if self.present[1] { Some(1) } else if self.present[2] { Some(2) } else if self.present[3] { Some(3) } else { None }
    }
    fn max(&self) -> Option<u8> {
        if self.present[3] { Some(3) } else if self.present[2] { Some(2) } else if self.present[1] { Some(1) } else if self.present[0] { Some(0) } else { None }
    }
}

fn key() -> u8 {
    let k: u8 = kani::any();
    kani::assume(k < KMAX);
    k
}

fn ins<C: Fn(&u8, &u8) -> Ordering>(t: &mut SplayTree<u8, u8, C>, m: &mut Model) {
    let (k, v): (u8, u8) = (key(), kani::any());
    let r = t.insert(k, v);
    assert!(r == m.insert(k, v), "insert returns the replaced value");
    assert!(t.len() == m.len(), "len after insert");
}
fn rem<C: Fn(&u8, &u8) -> Ordering>(t: &mut SplayTree<u8, u8, C>, m: &mut Model) {
    let k = key();
    let r = t.remove(&k);
    assert!(r == m.remove(k), "remove returns the removed value");
    assert!(t.len() == m.len(), "len after remove");
}

fn q_get<C: Fn(&u8, &u8) -> Ordering>(t: &SplayTree<u8, u8, C>, m: &Model) {
    let k = key();
    if kani::any() {
        assert!(t.get(&k).copied() == m.get(k), "get agrees with the reference map");
    } else {
        assert!(t.contains(&k) == m.get(k).is_some(), "contains agrees with the reference map");
    }
    kani::cover!(m.get(k).is_some(), "get: hit");
    kani::cover!(m.get(k).is_none() && m.len() > 0, "get: miss in a non-empty tree");
}
fn q_next<C: Fn(&u8, &u8) -> Ordering>(t: &SplayTree<u8, u8, C>, m: &Model) {
    let k = key();
    assert!(t.next(&k).map(|(a, b)| (*a, *b)) == m.next(k), "next is the successor of the reference map");
    kani::cover!(m.next(k).is_some() && m.get(k).is_none(), "next of an absent key");
}
fn q_prev<C: Fn(&u8, &u8) -> Ordering>(t: &SplayTree<u8, u8, C>, m: &Model) {
    let k = key();
    assert!(t.prev(&k).map(|(a, b)| (*a, *b)) == m.prev(k), "prev is the predecessor of the reference map");
    kani::cover!(m.prev(k).is_some() && m.get(k).is_none(), "prev of an absent key");
}
fn q_minmax<C: Fn(&u8, &u8) -> Ordering>(t: &SplayTree<u8, u8, C>, m: &Model) {
    assert!(t.min().copied() == m.min(), "min agrees");
    assert!(t.max().copied() == m.max(), "max agrees");
    assert!(t.len() == m.len() && t.is_empty() == (m.len() == 0), "len agrees");
    kani::cover!(m.len() >= 2 && m.min() != m.max(), "at least two keys");
}
/// structural: the nodes reachable from the root are exactly the reference keys, in BST order
fn q_shape<C: Fn(&u8, &u8) -> Ordering>(t: &SplayTree<u8, u8, C>, m: &Model) {
    let mut cnt = 0usize;
    let ok = walk(t.root_ref().as_deref(), 0, KMAX, &mut cnt, m, 4);
    assert!(ok, "tree is a binary search tree holding exactly the reference entries");
    assert!(cnt == m.len(), "node count equals the reference size");
    assert!(t.len() == cnt, "len equals the node count");
}
fn walk(n: Option<&Node<u8, u8>>, lo: u8, hi: u8, cnt: &mut usize, m: &Model, fuel: u8) -> bool {
    match n {
        None => true,
        Some(n) => {
            if fuel == 0 { return false; }
            *cnt += 1;
            n.key >= lo && n.key < hi && m.get(n.key) == Some(n.value)
                && walk(n.left.as_deref(), lo, n.key, cnt, m, fuel - 1)
                && walk(n.right.as_deref(), n.key + 1, hi, cnt, m, fuel - 1)
        }
    }
}
/// reference stability: a `&K` / `&V` handed out by a lookup still denotes the same element after
/// further (self-restructuring) lookups
fn q_refstab<C: Fn(&u8, &u8) -> Ordering>(t: &SplayTree<u8, u8, C>, m: &Model) {
    let k = key();
    let held_k = t.find_key(&k);
    let held_v = t.get(&k);
    let (a, b) = (key(), key());
    let _ = t.contains(&a);
    let _ = t.next(&b);
    let _ = t.prev(&a);
    match held_k {
        Some(r) => assert!(*r == k, "a key reference still denotes the same key after two further lookups"),
        None => assert!(m.get(k).is_none(), "find_key misses only absent keys"),
    }
    match held_v {
        Some(r) => assert!(Some(*r) == m.get(k), "a value reference still denotes the same value after further lookups"),
        None => assert!(m.get(k).is_none(), "get misses only absent keys"),
    }
    kani::cover!(held_k.is_some() && a != k && b != k, "held reference, other keys looked up");
}
/// consuming iteration, forward / backward / mixed: strictly increasing, exactly the reference entries
fn q_iter<C: Fn(&u8, &u8) -> Ordering>(t: SplayTree<u8, u8, C>, m: &Model) {
    let n = m.len();
    let mut it = t.into_iter();
    assert!(it.size_hint() == (n, Some(n)), "size_hint is the number of entries");
    let mut mm = *m;
    // KMAX = 4 pulls, direction chosen per pull (hand-unrolled)
    macro_rules! pull {
        () => {
            let fwd: bool = kani::any();
            let got = if fwd { it.next() } else { it.next_back() };
            let want = if fwd { mm.min() } else { mm.max() };
            match (got, want) {
                (None, None) => {}
                (Some((k, v)), Some(w)) => {
                    assert!(k == w && Some(v) == mm.get(w), "iteration yields the smallest (largest) remaining entry");
                    mm.remove(w);
                }
                _ => assert!(false, "iterator and reference disagree on exhaustion"),
            }
        };
    }
    pull!();
    pull!();
    pull!();
    pull!();
    assert!(it.next().is_none() && it.next_back().is_none(), "exhausted after all entries");
    std::mem::forget(it);
}

macro_rules! seq {
    ($name:ident, $u:expr, [$($op:ident),*], consume $q:ident) => {
        #[kani::proof]
        #[kani::unwind($u)]
        fn $name() {
            let mut t = new_tree_generic();
            let mut m = Model::new();
            $( $op(&mut t, &mut m); )*
            $q(t, &m);
        }
    };
    ($name:ident, $u:expr, [$($op:ident),*], $q:ident) => {
        #[kani::proof]
        #[kani::unwind($u)]
        fn $name() {
            let mut t = new_tree_generic();
            let mut m = Model::new();
            $( $op(&mut t, &mut m); )*
            $q(&t, &m);
            std::mem::forget(t);
        }
    };
}

// one update
seq!(sp_i_iter, 3, [ins], consume q_iter);
// two updates
seq!(sp_ii_get, 3, [ins, ins], q_get);
seq!(sp_ii_next, 3, [ins, ins], q_next);
seq!(sp_ii_prev, 3, [ins, ins], q_prev);
seq!(sp_ii_minmax, 3, [ins, ins], q_minmax);
seq!(sp_ii_shape, 3, [ins, ins], q_shape);
seq!(sp_ii_refstab, 3, [ins, ins], q_refstab);
seq!(sp_ii_iter, 3, [ins, ins], consume q_iter);
seq!(sp_ir_get, 3, [ins, rem], q_get);
seq!(sp_ir_shape, 3, [ins, rem], q_shape);
// three updates
seq!(sp_iii_get, 4, [ins, ins, ins], q_get);
seq!(sp_iii_next, 4, [ins, ins, ins], q_next);
seq!(sp_iii_prev, 4, [ins, ins, ins], q_prev);
seq!(sp_iii_minmax, 4, [ins, ins, ins], q_minmax);
seq!(sp_iii_shape, 4, [ins, ins, ins], q_shape);
seq!(sp_iii_refstab, 4, [ins, ins, ins], q_refstab);
seq!(sp_iii_iter, 4, [ins, ins, ins], consume q_iter);
seq!(sp_iir_get, 3, [ins, ins, rem], q_get);
seq!(sp_iir_next, 3, [ins, ins, rem], q_next);
seq!(sp_iir_shape, 3, [ins, ins, rem], q_shape);
seq!(sp_iri_shape, 3, [ins, rem, ins], q_shape);
seq!(sp_iri_get, 3, [ins, rem, ins], q_get);
seq!(sp_iiri_shape, 4, [ins, ins, rem, ins], q_shape);
seq!(sp_iiir_shape, 4, [ins, ins, ins, rem], q_shape);
seq!(sp_iiir_get, 4, [ins, ins, ins, rem], q_get);
seq!(sp_iiii_shape, 5, [ins, ins, ins, ins], q_shape);
seq!(sp_iiii_refstab, 5, [ins, ins, ins, ins], q_refstab);

// ---- remaining public operations: get_mut, Index/IndexMut, extend, clear, SplaySet wrappers
#[kani::proof]
#[kani::unwind(3)]
fn sp_getmut_index() {
    let mut t = new_tree_generic();
    let mut m = Model::new();
    ins(&mut t, &mut m);
    ins(&mut t, &mut m);
    let k = key();
    let nv: u8 = kani::any();
    match t.get_mut(&k) {
        Some(v) => {
            assert!(m.get(k).is_some(), "get_mut finds only present keys");
            *v = nv;
            m.insert(k, nv);
        }
        None => assert!(m.get(k).is_none(), "get_mut misses only absent keys"),
    }
    let q = key();
    if m.get(q).is_some() {
        assert!(t[&q] == m.get(q).unwrap(), "Index returns the stored value (after a write through get_mut)");
        t[&q] = 7;
        assert!(t.get(&q) == Some(&7), "IndexMut writes the stored value");
    }
    assert!(t.len() == m.len(), "len unchanged by value updates");
    kani::cover!(m.get(k).is_some() && q == k, "written key read back");
    std::mem::forget(t);
}
#[kani::proof]
#[kani::unwind(4)]
fn sp_extend() {
    let mut t = new_tree_generic();
    let mut m = Model::new();
    ins(&mut t, &mut m);
    let (k1, k2, v1, v2): (u8, u8, u8, u8) = (key(), key(), kani::any(), kani::any());
    t.extend([(k1, v1), (k2, v2)]);
    m.insert(k1, v1);
    m.insert(k2, v2);
    q_shape(&t, &m);
    kani::cover!(k1 == k2, "extend with a duplicate key");
    kani::cover!(m.len() == 3, "three distinct keys");
    std::mem::forget(t);
}
/// clear() of every 3-node shape, then reuse (concrete shapes: the teardown loop needs 2n iterations)
#[kani::proof]
#[kani::unwind(8)]
fn sp_clear() {
    let mut k = 0u8;
    while k < 5 {
        let mut t = new_tree_generic();
        install(&mut t, shape3(k), 3);
        t.clear();
        assert!(t.len() == 0 && t.is_empty() && t.min().is_none() && t.max().is_none() && t.get(&1).is_none(), "clear empties the map");
        let r = t.insert(1, 1);
        assert!(r.is_none() && t.len() == 1 && t.get(&1) == Some(&1), "the map is usable after clear");
        std::mem::forget(t);
        k += 1;
    }
    kani::cover!(true, "all shapes cleared");
}
#[kani::proof]
#[kani::unwind(3)]
fn sp_set_insert_lookup() {
    let mut s = SplaySet::new(|a: &u8, b: &u8| a.cmp(b));
    let mut m = Model::new();
    let (k1, k2) = (key(), key());
    assert!(s.insert(k1) == m.insert(k1, 0).is_none(), "set insert reports whether the key was new");
    assert!(s.insert(k2) == m.insert(k2, 0).is_none(), "set insert reports whether the key was new");
    let q = key();
    if kani::any() {
        assert!(s.contains(&q) == m.get(q).is_some(), "set contains");
    } else {
        assert!(s.find(&q).copied() == m.get(q).map(|_| q), "set find");
    }
    assert!(s.min().copied() == m.min() && s.max().copied() == m.max() && s.len() == m.len() && s.is_empty() == (m.len() == 0), "set min/max/len");
    kani::cover!(k1 != k2 && q == k1, "hit");
    std::mem::forget(s);
}
#[kani::proof]
#[kani::unwind(3)]
fn sp_set_neighbours_remove() {
    let mut s = SplaySet::new(|a: &u8, b: &u8| a.cmp(b));
    let mut m = Model::new();
    let (k1, k2) = (key(), key());
    s.insert(k1);
    s.insert(k2);
    m.insert(k1, 0);
    m.insert(k2, 0);
    let q = key();
    match kani::any::<u8>() % 3 {
        0 => assert!(s.next(&q).copied() == m.next(q).map(|p| p.0), "set next"),
        1 => assert!(s.prev(&q).copied() == m.prev(q).map(|p| p.0), "set prev"),
        _ => {
            assert!(s.remove(&q) == m.remove(q).is_some(), "set remove reports whether the key was present");
            assert!(s.len() == m.len(), "len after remove");
        }
    }
    kani::cover!(k1 != k2 && q == k1, "present key");
    std::mem::forget(s);
}

// ---- reference stability on every 3-node shape: the address of every stored key is unchanged by lookups
/// the five binary search trees over the keys {0,1,2} (values = 10 + key)
fn shape3(k: u8) -> Option<Box<Node<u8, u8>>> {
    let n = |key: u8, l: Option<Box<Node<u8, u8>>>, r: Option<Box<Node<u8, u8>>>| Some(Node::new_boxed(key, 10 + key, l, r));
    match k {
        0 => n(2, n(1, n(0, None, None), None), None), // left chain
        1 => n(0, None, n(1, None, n(2, None, None))), // right chain
        2 => n(2, n(0, None, n(1, None, None)), None), // left-right zig-zag
        3 => n(0, None, n(2, n(1, None, None), None)), // right-left zig-zag
        _ => n(1, n(0, None, None), n(2, None, None)), // balanced
    }
}
fn key_addr(n: &Option<Box<Node<u8, u8>>>, key: u8) -> *const u8 {
    // at most three levels
    let mut cur = n.as_deref();
    let mut d = 0;
    while d < 3 {
        match cur {
            None => return std::ptr::null(),
            Some(x) => {
                if x.key == key {
                    return &x.key as *const u8;
                }
                cur = if key < x.key { x.left.as_deref() } else { x.right.as_deref() };
            }
        }
        d += 1;
    }
    std::ptr::null()
}
fn refstab_shape(k: u8) {
    let mut t = new_tree_generic();
    install(&mut t, shape3(k), 3);
    let (p0, p1, p2) = (key_addr(t.root_ref(), 0), key_addr(t.root_ref(), 1), key_addr(t.root_ref(), 2));
    assert!(!p0.is_null() && !p1.is_null() && !p2.is_null());
    // one lookup of arbitrary kind with an arbitrary key (present or absent): exactly one splay
    let a = key();
    let kind: u8 = kani::any();
    match kind % 3 {
        0 => {
            let _ = t.contains(&a);
        }
        1 => {
            let _ = t.next(&a);
        }
        _ => {
            let _ = t.prev(&a);
        }
    }
    unsafe {
        assert!(*p0 == 0 && *p1 == 1 && *p2 == 2, "lookups move box pointers only: every stored key keeps its address (references handed out earlier stay valid)");
    }
    assert!(t.len() == 3, "lookups do not change the size");
    kani::cover!(a == 0, "smallest key looked up");
    kani::cover!(a == 3, "absent key looked up");
    std::mem::forget(t);
}
macro_rules! refstab3 {
    ($name:ident, $k:expr) => {
        #[kani::proof]
        #[kani::unwind(4)]
        fn $name() {
            refstab_shape($k)
        }
    };
}
refstab3!(sp_refstab3_left_chain, 0);
refstab3!(sp_refstab3_right_chain, 1);
refstab3!(sp_refstab3_zigzag_lr, 2);
refstab3!(sp_refstab3_zigzag_rl, 3);
refstab3!(sp_refstab3_balanced, 4);

// ---- one update on every 3-node shape (all trees over three keys, however they were reached)
fn update_shape(k: u8) {
    let mut t = new_tree_generic();
    install(&mut t, shape3(k), 3);
    let mut m = Model::new();
    m.insert(0, 10);
    m.insert(1, 11);
    m.insert(2, 12);
    rem(&mut t, &mut m);
    q_shape(&t, &m);
    kani::cover!(m.len() == 2, "a key was removed");
    kani::cover!(m.len() == 3, "an absent key was asked for");
    std::mem::forget(t);
}
/// one query on every 3-node shape
fn query_shape(k: u8) {
    let mut t = new_tree_generic();
    install(&mut t, shape3(k), 3);
    let mut m = Model::new();
    m.insert(0, 10);
    m.insert(1, 11);
    m.insert(2, 12);
    let q = key();
    let kind: u8 = kani::any();
    match kind % 3 {
        0 => assert!(t.get(&q).copied() == m.get(q), "get agrees with the reference map"),
        1 => assert!(t.next(&q).map(|(a, b)| (*a, *b)) == m.next(q), "next agrees with the reference map"),
        _ => assert!(t.prev(&q).map(|(a, b)| (*a, *b)) == m.prev(q), "prev agrees with the reference map"),
    }
    assert!(t.len() == 3 && t.min() == Some(&0) && t.max() == Some(&2), "queries leave the contents intact");
    kani::cover!(q == 3, "absent key queried");
    std::mem::forget(t);
}
macro_rules! shape3_h {
    ($name:ident, $f:ident, $k:expr) => {
        shape3_h!($name, $f, $k, 5);
    };
    ($name:ident, $f:ident, $k:expr, $u:expr) => {
        #[kani::proof]
        #[kani::unwind($u)]
        fn $name() {
            $f($k)
        }
    };
}
shape3_h!(sp_remove3_left_chain, update_shape, 0, 4);
shape3_h!(sp_remove3_right_chain, update_shape, 1, 4);
shape3_h!(sp_remove3_zigzag_lr, update_shape, 2, 4);
shape3_h!(sp_remove3_zigzag_rl, update_shape, 3, 4);
shape3_h!(sp_remove3_balanced, update_shape, 4, 4);
shape3_h!(sp_query3_left_chain, query_shape, 0, 4);
shape3_h!(sp_query3_right_chain, query_shape, 1, 4);
shape3_h!(sp_query3_zigzag_lr, query_shape, 2, 4);
shape3_h!(sp_query3_zigzag_rl, query_shape, 3, 4);
shape3_h!(sp_query3_balanced, query_shape, 4, 4);

// ---- consuming iteration of every 3-node shape, for the eight direction patterns of three pulls
// (shape and directions concrete per harness: the whole run is determined, the solver checks it against
// the reference and checks memory safety of the rotations)
fn iter_shape(k: u8, dirs: [bool; 3]) {
    let mut t = new_tree_generic();
    install(&mut t, shape3(k), 3);
    let mut it = t.into_iter();
    assert!(it.size_hint() == (3, Some(3)), "size_hint is the number of entries");
    let (mut lo, mut hi) = (0u8, 2u8);
    macro_rules! pull {
        ($d:expr) => {
            let got = if $d { it.next() } else { it.next_back() };
            let want = if $d { lo } else { hi };
            assert!(got == Some((want, 10 + want)), "iteration yields the smallest (largest) remaining entry");
            if $d {
                lo += 1;
            } else if hi > 0 {
                hi -= 1;
            }
        };
    }
    pull!(dirs[0]);
    pull!(dirs[1]);
    pull!(dirs[2]);
    assert!(it.size_hint() == (0, Some(0)), "size_hint reaches zero");
    assert!(it.next().is_none() && it.next_back().is_none(), "exhausted after all entries");
    std::mem::forget(it);
}
fn iter_shape_all_dirs(k: u8) {
    iter_shape(k, [true, true, true]);
    iter_shape(k, [false, false, false]);
    iter_shape(k, [false, true, false]);
    iter_shape(k, [true, false, true]);
    iter_shape(k, [true, true, false]);
    iter_shape(k, [false, false, true]);
    kani::cover!(true, "all direction patterns executed");
}
shape3_h!(sp_iter3_left_chain, iter_shape_all_dirs, 0, 5);
shape3_h!(sp_iter3_right_chain, iter_shape_all_dirs, 1, 5);
shape3_h!(sp_iter3_zigzag_lr, iter_shape_all_dirs, 2, 5);
shape3_h!(sp_iter3_zigzag_rl, iter_shape_all_dirs, 3, 5);
shape3_h!(sp_iter3_balanced, iter_shape_all_dirs, 4, 5);
