//! C15 / L-ORD-E, L-ORD-S: the event order (`impl Ord for SweepEvent`) and the segment order
//! (`compare_segments`) on pairs (and triples) of lattice segments, against integer reference models.
//! `robust::orient2d` is replaced by the exact determinant (lattice inputs only; DESIGN 2.3).

use super::super::compare_segments::compare_segments;
use super::super::helper::Float;
use super::super::sweep_event::SweepEvent;
use super::common::*;
use crate::verif_params as P;
use std::cmp::Ordering;
use std::rc::Rc;

#[derive(Clone, Copy)]
pub struct ISeg {
    pub l: IP,
    pub r: IP,
    pub subject: bool,
}
impl ISeg {
    pub fn any(n: u8) -> ISeg {
        let a = IP::any(n);
        let b = IP::any(n);
        kani::assume(a.x != b.x || a.y != b.y);
        let (l, r) = if a.lex_lt(b) { (a, b) } else { (b, a) };
        ISeg { l, r, subject: kani::any() }
    }
    pub fn build<F: Float>(&self, contour_id: u32) -> Seg<F> {
        seg(self.l, self.r, self.subject, contour_id)
    }
    /// > 0: q strictly above (left of) the directed line l -> r
    pub fn side(&self, q: IP) -> i32 {
        iorient(self.l, self.r, q)
    }
    pub fn vertical(&self) -> bool {
        self.l.x == self.r.x
    }
}

/// reference event order: true iff event (a, a_left) is processed before event (b, b_left)
fn ref_before(a: &ISeg, a_left: bool, b: &ISeg, b_left: bool) -> bool {
    let pa = if a_left { a.l } else { a.r };
    let pb = if b_left { b.l } else { b.r };
    if pa.lex_lt(pb) {
        return true;
    }
    if pb.lex_lt(pa) {
        return false;
    }
    if a_left != b_left {
        return !a_left; // right endpoint events first
    }
    let oa = if a_left { a.r } else { a.l };
    let ob = if b_left { b.r } else { b.l };
    if iorient(pa, oa, ob) != 0 {
        return a.side(ob) > 0; // the lower segment first
    }
    a.subject || !b.subject // collinear: subject first
}
/// validity of two co-occurring events of distinct edges: two edges of ONE operand never overlap,
/// so they are never collinear at a common point with the same endpoint kind
fn events_valid(a: &ISeg, a_left: bool, b: &ISeg, b_left: bool) -> bool {
    let pa = if a_left { a.l } else { a.r };
    let pb = if b_left { b.l } else { b.r };
    let oa = if a_left { a.r } else { a.l };
    let ob = if b_left { b.r } else { b.l };
    !(a.subject == b.subject && pa == pb && a_left == b_left && iorient(pa, oa, ob) == 0)
}

fn evord_pair_body<F: Float>(a_left: bool, b_left: bool) {
    let n = P::N;
    let a = ISeg::any(n);
    let b = ISeg::any(n);
    kani::assume(events_valid(&a, a_left, &b, b_left));
    let sa: Seg<F> = a.build(1);
    let sb: Seg<F> = b.build(2);
    let ea = if a_left { &sa.l } else { &sa.r };
    let eb = if b_left { &sb.l } else { &sb.r };
    let ab = ea.cmp(eb);
    let ba = eb.cmp(ea);
    assert!(ab != Ordering::Equal && ba != Ordering::Equal, "distinct events never compare Equal");
    assert!(ab == ba.reverse(), "event order is antisymmetric");
    // Ord is inverted w.r.t. processing order (BinaryHeap pops the maximum)
    assert!(
        (ab == Ordering::Greater) == ref_before(&a, a_left, &b, b_left),
        "event order: x, then y, then right before left, then lower segment first, then subject first"
    );
    assert!(ea.is_before(eb) == (ab == Ordering::Greater) && ea.is_after(eb) == (ab == Ordering::Less), "is_before/is_after agree with cmp");
    let pa = if a_left { a.l } else { a.r };
    let pb = if b_left { b.l } else { b.r };
    kani::cover!(pa == pb && a.subject != b.subject && iorient(pa, if a_left { a.r } else { a.l }, if b_left { b.r } else { b.l }) == 0, "same point, collinear, different operands");
    kani::cover!(pa == pb && a.vertical() && !b.vertical(), "same point, one vertical");
    kani::cover!(pa.x == pb.x && pa.y != pb.y, "same x, different y");
    std::mem::forget((sa, sb));
}

macro_rules! evord_pair {
    ($name:ident, $f:ty, $al:expr, $bl:expr) => {
        #[kani::proof]
        #[kani::unwind(3)]
        #[kani::stub(robust::orient2d, super::common::orient2d_stub)]
        fn $name() {
            evord_pair_body::<$f>($al, $bl)
        }
    };
}
evord_pair!(evord_ll_f64, f64, true, true);
evord_pair!(evord_lr_f64, f64, true, false);
evord_pair!(evord_rr_f64, f64, false, false);
evord_pair!(evord_ll_f32, f32, true, true);
evord_pair!(evord_lr_f32, f32, true, false);
evord_pair!(evord_rr_f32, f32, false, false);

/// transitivity on triples (thorough)
fn evord_triple_body<F: Float>(al: bool, bl: bool, cl: bool) {
    let n = if P::N > 3 { 3 } else { P::N };
    let a = ISeg::any(n);
    let b = ISeg::any(n);
    let c = ISeg::any(n);
    kani::assume(events_valid(&a, al, &b, bl) && events_valid(&b, bl, &c, cl) && events_valid(&a, al, &c, cl));
    let sa: Seg<F> = a.build(1);
    let sb: Seg<F> = b.build(2);
    let sc: Seg<F> = c.build(3);
    let ea = if al { &sa.l } else { &sa.r };
    let eb = if bl { &sb.l } else { &sb.r };
    let ec = if cl { &sc.l } else { &sc.r };
    let ab = ea.cmp(eb);
    let bc = eb.cmp(ec);
    let ac = ea.cmp(ec);
    if ab == bc {
        assert!(ac == ab, "event order is transitive");
    }
    kani::cover!(ab == bc && ab == Ordering::Less, "chain a<b<c");
    kani::cover!(ab != bc, "no chain");
    std::mem::forget((sa, sb, sc));
}
macro_rules! evord_triple {
    ($name:ident, $al:expr, $bl:expr, $cl:expr) => {
        #[kani::proof]
        #[kani::unwind(3)]
        #[kani::stub(robust::orient2d, super::common::orient2d_stub)]
        fn $name() {
            evord_triple_body::<f64>($al, $bl, $cl)
        }
    };
}
evord_triple!(evord_triple_lll, true, true, true);
evord_triple!(evord_triple_llr, true, true, false);
evord_triple!(evord_triple_lrr, true, false, false);
evord_triple!(evord_triple_rrr, false, false, false);

// ------------------------------------------------------------------------------------ segment order

/// proper crossing or T-crossing that is not a mere touch: the open segments intersect in one point,
/// or an endpoint of one lies in the open interior of the other *and* the other's endpoints are on
/// different sides (handled as touching = allowed).  Returns true iff the interiors cross properly.
fn proper_cross(a: &ISeg, b: &ISeg) -> bool {
    let (d1, d2) = (a.side(b.l), a.side(b.r));
    let (d3, d4) = (b.side(a.l), b.side(a.r));
    ((d1 > 0 && d2 < 0) || (d1 < 0 && d2 > 0)) && ((d3 > 0 && d4 < 0) || (d3 < 0 && d4 > 0))
}
fn collinear(a: &ISeg, b: &ISeg) -> bool {
    a.side(b.l) == 0 && a.side(b.r) == 0
}
/// sign of y_a(x) - y_b(x) for non-vertical a, b at lattice abscissa x (cross-multiplied integers)
fn ydiff_sign(a: &ISeg, b: &ISeg, x: i32) -> i32 {
    let (adx, ady) = (a.r.x - a.l.x, a.r.y - a.l.y);
    let (bdx, bdy) = (b.r.x - b.l.x, b.r.y - b.l.y);
    // y_a = a.l.y + ady*(x-a.l.x)/adx ; compare y_a*adx*bdx with y_b*adx*bdx (adx,bdx > 0)
    let ya = (a.l.y * adx + ady * (x - a.l.x)) * bdx;
    let yb = (b.l.y * bdx + bdy * (x - b.l.x)) * adx;
    ya - yb
}
/// Vertical order of two non-crossing segments whose x-extents overlap, where they are vertically
/// separated: Some(true) = a below b, Some(false) = a above b, None = not separated anywhere
/// (collinear, or they only touch at the single common abscissa).
fn vertical_order(a: &ISeg, b: &ISeg) -> Option<bool> {
    let xa = if a.l.x > b.l.x { a.l.x } else { b.l.x };
    let xb = if a.r.x < b.r.x { a.r.x } else { b.r.x };
    if xa > xb {
        return None;
    }
    match (a.vertical(), b.vertical()) {
        (false, false) => {
            let (s1, s2) = (ydiff_sign(a, b, xa), ydiff_sign(a, b, xb));
            if s1 < 0 || s2 < 0 {
                Some(true)
            } else if s1 > 0 || s2 > 0 {
                Some(false)
            } else {
                None
            }
        }
        (true, false) => {
            // b's height at a's abscissa, against a's y-range (scaled by b's dx > 0)
            let bdx = b.r.x - b.l.x;
            let yb = b.l.y * bdx + (b.r.y - b.l.y) * (a.l.x - b.l.x);
            if yb > a.r.y * bdx {
                Some(true)
            } else if yb < a.l.y * bdx {
                Some(false)
            } else {
                None
            }
        }
        (false, true) => vertical_order(b, a).map(|x| !x),
        // two vertical segments on one abscissa are never in the sweep line at the same time unless they
        // overlap (the lower one's right event precedes the upper one's left event): no claim
        (true, true) => None,
    }
}

fn segord_pair_body<F: Float>(n: u8, operands: u8) {
    segord_body::<F>(n, operands, true)
}
/// both_orders = false: one call per ordered pair (a, b), compared with the reference only; the
/// reference is antisymmetric by construction and the harness covers both (a, b) and (b, a)
fn segord_body<F: Float>(n: u8, operands: u8, both_orders: bool) {
    let a = ISeg::any(n);
    let b = ISeg::any(n);
    // operands: 0 any, 1 same operand, 2 different operands (split of the domain into two queries)
    kani::assume(operands == 0 || (operands == 1) == (a.subject == b.subject));
    // validity: two edges of one operand never overlap in a segment
    let overlap_len = collinear(&a, &b) && {
        // common part has positive length: max of lefts lex< min of rights
        let lo = if a.l.lex_lt(b.l) { b.l } else { a.l };
        let hi = if a.r.lex_lt(b.r) { a.r } else { b.r };
        lo.lex_lt(hi)
    };
    kani::assume(!(a.subject == b.subject && overlap_len));
    let sa: Seg<F> = a.build(1);
    let sb: Seg<F> = b.build(2);
    let ab = compare_segments(&sa.l, &sb.l);
    assert!(ab != Ordering::Equal, "distinct segments never compare Equal");
    assert!(compare_segments(&sa.l, &sa.l) == Ordering::Equal, "a segment equals itself");
    if both_orders {
        let ba = compare_segments(&sb.l, &sa.l);
        assert!(ba != Ordering::Equal, "distinct segments never compare Equal");
        assert!(ab == ba.reverse(), "segment order is antisymmetric");
    }
    if !proper_cross(&a, &b) {
        if let Some(a_below) = vertical_order(&a, &b) {
            assert!(
                (ab == Ordering::Less) == a_below,
                "non-crossing segments with overlapping x-extent: order equals the vertical order where they are separated"
            );
        }
    }
    // coincident / overlapping edges of different operands: subject below (tie-break used by the typing of twins)
    if overlap_len {
        assert!((ab == Ordering::Less) == a.subject, "collinear overlapping edges of different operands: subject below");
    }
    // convention the flag propagation (compute_fields, vertical predecessor) relies on: an edge leaving
    // the interior of a vertical edge to the right is above that vertical edge in the sweep line
    if a.vertical() && !b.vertical() && b.l.x == a.l.x && b.l.y > a.l.y && b.l.y < a.r.y {
        assert!(ab == Ordering::Less, "an edge starting in the interior of a vertical edge is ordered above it");
    }
    kani::cover!(operands == 1 || overlap_len, "collinear overlap, different operands");
    kani::cover!(a.vertical() && !b.vertical() && vertical_order(&a, &b) == Some(true), "vertical below a slanted segment");
    kani::cover!(!proper_cross(&a, &b) && a.l == b.l && !collinear(&a, &b), "common left endpoint");
    kani::cover!(!proper_cross(&a, &b) && a.side(b.l) == 0 && !collinear(&a, &b) && b.l != a.l && b.l != a.r, "T-junction: b starts on a");
    kani::cover!(proper_cross(&a, &b), "properly crossing pair (only antisymmetry asserted)");
    std::mem::forget((sa, sb));
}
macro_rules! segord_pair {
    ($name:ident, $f:ty, $n:expr, $ops:expr) => {
        #[kani::proof]
        #[kani::unwind(3)]
        #[kani::stub(robust::orient2d, super::common::orient2d_stub)]
        fn $name() {
            segord_pair_body::<$f>($n, $ops)
        }
    };
}
#[kani::proof]
#[kani::unwind(3)]
#[kani::stub(robust::orient2d, super::common::orient2d_stub)]
fn segord_oracle_f32_n3() {
    segord_body::<f32>(3, 0, false)
}
segord_pair!(segord_pair_f32_n3_same, f32, 3, 1);
segord_pair!(segord_pair_f32_n3_diff, f32, 3, 2);
segord_pair!(segord_pair_f64_n3, f64, 3, 0);
segord_pair!(segord_pair_f32, f32, P::N, 0);
segord_pair!(segord_pair_f64, f64, P::N, 0);
