//! Shared helpers of all Kani harnesses (lattice domain, orient2d stub, segment builders).
//! Compiled only under cfg(kani) as `crate::boolean::verif_kani::common`.

use super::super::helper::Float;
use super::super::sweep_event::SweepEvent;
use crate::verif_params as P;
use geo_types::Coord;
use std::rc::{Rc, Weak};

/// Lattice coordinate: ((OFF + i) as F) * 2^K.  Every +,-,* of the library on such values is exact
/// for i < 16 and |OFF| <= 2^20 (products of differences need <= 8 bits).
#[inline(never)]
pub fn lx<F: Float>(i: u8) -> F {
    F::from(P::OFF_X + i as i32).unwrap() * F::from(P::SCALE).unwrap()
}
#[inline(never)]
pub fn ly<F: Float>(i: u8) -> F {
    F::from(P::OFF_Y + i as i32).unwrap() * F::from(P::SCALE).unwrap()
}
pub fn pt<F: Float>(ix: u8, iy: u8) -> Coord<F> {
    Coord { x: lx(ix), y: ly(iy) }
}

/// symbolic lattice index in 0..n
pub fn idx(n: u8) -> u8 {
    let i: u8 = kani::any();
    kani::assume(i < n);
    i
}

/// Integer point of the lattice window (indices, not coordinates): the reference models work on these.
#[derive(Clone, Copy, PartialEq, Eq, Debug)]
pub struct IP {
    pub x: i32,
    pub y: i32,
}
impl IP {
    pub fn any(n: u8) -> IP {
        IP {
            x: idx(n) as i32,
            y: idx(n) as i32,
        }
    }
    pub fn c<F: Float>(self) -> Coord<F> {
        pt(self.x as u8, self.y as u8)
    }
    /// lexicographic (x, then y) strictly-less
    pub fn lex_lt(self, o: IP) -> bool {
        self.x < o.x || (self.x == o.x && self.y < o.y)
    }
}
/// integer orientation: > 0 iff c is left of a->b (counter-clockwise)
pub fn iorient(a: IP, b: IP, c: IP) -> i32 {
    (a.x - c.x) * (b.y - c.y) - (a.y - c.y) * (b.x - c.x)
}

/// Replacement of `robust::orient2d` on lattice inputs: the determinant evaluated in f64.
/// On the lattice every operation below is exact, so this *is* the exact sign and value.
/// Trusted assumption (DESIGN 2.3); native replays run the real predicate.
pub fn orient2d_stub<T: Into<f64>>(pa: robust::Coord<T>, pb: robust::Coord<T>, pc: robust::Coord<T>) -> f64 {
    let (ax, ay): (f64, f64) = (pa.x.into(), pa.y.into());
    let (bx, by): (f64, f64) = (pb.x.into(), pb.y.into());
    let (cx, cy): (f64, f64) = (pc.x.into(), pc.y.into());
    (ax - cx) * (by - cy) - (ay - cy) * (bx - cx)
}

/// Same, but first asserts that all six inputs are points of the current lattice window, so that a
/// harness that lets a computed (off-lattice) point reach the predicate fails loudly instead of
/// trusting the model outside its domain.
pub fn orient2d_stub_checked<T: Into<f64>>(pa: robust::Coord<T>, pb: robust::Coord<T>, pc: robust::Coord<T>) -> f64 {
    let (ax, ay): (f64, f64) = (pa.x.into(), pa.y.into());
    let (bx, by): (f64, f64) = (pb.x.into(), pb.y.into());
    let (cx, cy): (f64, f64) = (pc.x.into(), pc.y.into());
    assert!(
        on_lattice(ax) && on_lattice(ay) && on_lattice(bx) && on_lattice(by) && on_lattice(cx) && on_lattice(cy),
        "orient2d model used outside the lattice"
    );
    (ax - cx) * (by - cy) - (ay - cy) * (bx - cx)
}
fn on_lattice(v: f64) -> bool {
    let s = v * P::INV_SCALE;
    s.abs() < 4194304.0 && ((s as i64) as f64) == s
}

/// A segment as a linked left/right event pair; left/right decided by the harness's own integer
/// comparison (not by the code under test).
pub struct Seg<F: Float> {
    pub l: Rc<SweepEvent<F>>,
    pub r: Rc<SweepEvent<F>>,
}
pub fn seg<F: Float>(a: IP, b: IP, is_subject: bool, contour_id: u32) -> Seg<F> {
    // caller guarantees a != b
    let (pl, pr) = if a.lex_lt(b) { (a, b) } else { (b, a) };
    let r = SweepEvent::new_rc(contour_id, pr.c(), false, Weak::new(), is_subject, true);
    let l = SweepEvent::new_rc(contour_id, pl.c(), true, Rc::downgrade(&r), is_subject, true);
    r.set_other_event(&l);
    Seg { l, r }
}
pub fn seg_c<F: Float>(pl: Coord<F>, pr: Coord<F>, is_subject: bool, contour_id: u32) -> Seg<F> {
    let r = SweepEvent::new_rc(contour_id, pr, false, Weak::new(), is_subject, true);
    let l = SweepEvent::new_rc(contour_id, pl, true, Rc::downgrade(&r), is_subject, true);
    r.set_other_event(&l);
    Seg { l, r }
}

// ------------------------------------------------------------------------------------------------
// BinaryHeap as environment: where the heap is not the subject (its correctness is conditional on the
// event order, which C15 decides), `push` is replaced by a recorder and `pop` by a scripted queue.
// The element type is pointer-sized (Rc<SweepEvent<F>>); elements are kept as raw pointers.
use std::alloc::Allocator;
use std::collections::BinaryHeap;

pub const HEAP_CAP: usize = 12;
pub static mut PUSHED: [*const (); HEAP_CAP] = [std::ptr::null(); HEAP_CAP];
pub static mut NPUSHED: usize = 0;
pub static mut SCRIPT: [*const (); HEAP_CAP] = [std::ptr::null(); HEAP_CAP];
pub static mut NSCRIPT: usize = 0;
pub static mut ISCRIPT: usize = 0;

pub fn heap_push_record<T: Ord, A: Allocator>(_h: &mut BinaryHeap<T, A>, item: T) {
    assert!(std::mem::size_of::<T>() == std::mem::size_of::<*const ()>());
    unsafe {
        let p: *const () = std::mem::transmute_copy(&item);
        if NPUSHED < HEAP_CAP {
            PUSHED[NPUSHED] = p;
        }
        NPUSHED += 1;
    }
    std::mem::forget(item);
}
pub fn heap_pop_scripted<T: Ord, A: Allocator>(_h: &mut BinaryHeap<T, A>) -> Option<T> {
    assert!(std::mem::size_of::<T>() == std::mem::size_of::<*const ()>());
    unsafe {
        if ISCRIPT < NSCRIPT {
            let p = SCRIPT[ISCRIPT];
            ISCRIPT += 1;
            Some(std::mem::transmute_copy::<*const (), T>(&p))
        } else {
            None
        }
    }
}
/// hand an event to the scripted queue (ownership of one strong reference moves into the script)
pub fn script_push<F: Float>(e: &Rc<SweepEvent<F>>) {
    let c = e.clone();
    unsafe {
        let p: *const () = std::mem::transmute_copy(&c);
        SCRIPT[NSCRIPT] = p;
        NSCRIPT += 1;
    }
    std::mem::forget(c);
}
/// the k-th recorded push as an event (borrowed view: the caller must forget the returned Rc)
pub fn pushed<F: Float>(k: usize) -> Rc<SweepEvent<F>> {
    unsafe { std::mem::transmute_copy::<*const (), Rc<SweepEvent<F>>>(&PUSHED[k]) }
}
