//! L-INT: `segment_intersection::intersection` on the lattice (D-INT), both instantiations.
//! No stub is involved: this kernel is pure float arithmetic and is encoded bit-precisely.

use super::super::helper::Float;
use super::super::segment_intersection::{intersection, LineIntersection};
use super::common::*;
use super::h_ord::ISeg;
use crate::verif_params as P;
use geo_types::Coord;

#[derive(Clone, Copy, PartialEq, Eq)]
enum Kind {
    None,
    Point,
    Overlap,
}
/// exact classification by integer orientation tests; for Point the exact point as rationals
/// (xn/d, yn/d) in lattice index space, for Overlap its two end points
struct Exact {
    kind: Kind,
    xn: i32,
    yn: i32,
    d: i32,
    o1: IP,
    o2: IP,
}
fn exact(a: &ISeg, b: &ISeg) -> Exact {
    let (d1, d2) = (a.side(b.l), a.side(b.r));
    let (d3, d4) = (b.side(a.l), b.side(a.r));
    let none = Exact { kind: Kind::None, xn: 0, yn: 0, d: 1, o1: a.l, o2: a.l };
    if d1 == 0 && d2 == 0 {
        // collinear: compare along the line by the lexicographic order of the end points
        let lo = if a.l.lex_lt(b.l) { b.l } else { a.l };
        let hi = if a.r.lex_lt(b.r) { a.r } else { b.r };
        if hi.lex_lt(lo) {
            return none;
        }
        if lo == hi {
            return Exact { kind: Kind::Point, xn: lo.x, yn: lo.y, d: 1, o1: lo, o2: lo };
        }
        return Exact { kind: Kind::Overlap, xn: 0, yn: 0, d: 1, o1: lo, o2: hi };
    }
    let opp = |p: i32, q: i32| (p <= 0 && q >= 0) || (p >= 0 && q <= 0);
    if !(opp(d1, d2) && opp(d3, d4)) {
        return none;
    }
    // a.l + s * va with s = ((b.l - a.l) x vb) / (va x vb)
    let (vax, vay) = (a.r.x - a.l.x, a.r.y - a.l.y);
    let (vbx, vby) = (b.r.x - b.l.x, b.r.y - b.l.y);
    let (ex, ey) = (b.l.x - a.l.x, b.l.y - a.l.y);
    let den = vax * vby - vay * vbx;
    let sn = ex * vby - ey * vbx;
    Exact { kind: Kind::Point, xn: a.l.x * den + sn * vax, yn: a.l.y * den + sn * vay, d: den, o1: a.l, o2: a.l }
}
fn rel_tol<F: Float>() -> f64 {
    if std::mem::size_of::<F>() == 4 {
        1e-4
    } else {
        1e-9
    }
}
/// |coordinate - exact| <= tol, everything in lattice index units, compared by cross-multiplication
fn near<F: Float>(p: Coord<F>, xn: i32, yn: i32, d: i32) -> bool {
    let px: f64 = p.x.into();
    let py: f64 = p.y.into();
    let ix = px * P::INV_SCALE - P::OFF_X as f64;
    let iy = py * P::INV_SCALE - P::OFF_Y as f64;
    let mag = (P::OFF_X.abs().max(P::OFF_Y.abs()) as f64) + 16.0;
    let tol = rel_tol::<F>() * mag * (d.abs() as f64);
    (ix * d as f64 - xn as f64).abs() <= tol && (iy * d as f64 - yn as f64).abs() <= tol
}
fn in_box<F: Float>(p: Coord<F>, s: &ISeg) -> bool {
    let (l, r): (Coord<F>, Coord<F>) = (s.l.c(), s.r.c());
    let (ylo, yhi) = if l.y < r.y { (l.y, r.y) } else { (r.y, l.y) };
    p.x >= l.x && p.x <= r.x && p.y >= ylo && p.y <= yhi
}
fn is_endpoint(e: &Exact, s: &ISeg) -> Option<IP> {
    if e.kind != Kind::Point {
        return None;
    }
    if e.xn == s.l.x * e.d && e.yn == s.l.y * e.d {
        return Some(s.l);
    }
    if e.xn == s.r.x * e.d && e.yn == s.r.y * e.d {
        return Some(s.r);
    }
    None
}
fn axis_parallel(s: &ISeg) -> bool {
    s.l.x == s.r.x || s.l.y == s.r.y
}

fn int_classify_body<F: Float>() {
    let n = P::N;
    let a = ISeg::any(n);
    let b = ISeg::any(n);
    let r = intersection::<F>(a.l.c(), a.r.c(), b.l.c(), b.r.c());
    let e = exact(&a, &b);
    match r {
        LineIntersection::None => assert!(e.kind == Kind::None, "None is reported exactly when the segments are disjoint"),
        LineIntersection::Point(p) => {
            assert!(e.kind == Kind::Point, "Point is reported exactly when the segments have one common point");
            assert!(in_box(p, &a) && in_box(p, &b), "the point lies inside the bounding boxes of both segments");
            assert!(near(p, e.xn, e.yn, e.d), "the point is within rounding tolerance of the exact intersection");
            if let Some(q) = is_endpoint(&e, &a) {
                assert!(p == q.c(), "an intersection at an endpoint of the first segment returns that endpoint bit-identically");
            } else if let Some(q) = is_endpoint(&e, &b) {
                assert!(p == q.c(), "an intersection at an endpoint of the second segment returns that endpoint bit-identically");
            }
            if axis_parallel(&a) && axis_parallel(&b) {
                let q: Coord<F> = Coord { x: lx((e.xn / e.d) as u8), y: ly((e.yn / e.d) as u8) };
                assert!(p == q, "axis-parallel lattice segments: the computed point is exact");
            }
        }
        LineIntersection::Overlap(p1, p2) => {
            assert!(e.kind == Kind::Overlap, "Overlap is reported exactly for collinear segments with a common sub-segment");
            assert!(in_box(p1, &a) && in_box(p1, &b) && in_box(p2, &a) && in_box(p2, &b), "overlap end points lie inside both boxes");
            assert!(
                (near(p1, e.o1.x, e.o1.y, 1) && near(p2, e.o2.x, e.o2.y, 1)) || (near(p1, e.o2.x, e.o2.y, 1) && near(p2, e.o1.x, e.o1.y, 1)),
                "overlap end points are the end points of the common sub-segment (within tolerance)"
            );
        }
    }
    kani::cover!(e.kind == Kind::Overlap, "collinear overlap");
    kani::cover!(e.kind == Kind::Point && e.d != 1 && e.d != -1 && e.xn % e.d != 0, "interior crossing at a non-lattice point");
    kani::cover!(e.kind == Kind::Point && is_endpoint(&e, &a).is_none() && is_endpoint(&e, &b).is_some(), "T-junction: endpoint of b inside a");
    kani::cover!(e.kind == Kind::Point && a.side(b.l) == 0 && a.side(b.r) == 0, "collinear, touching end to end");
    kani::cover!(e.kind == Kind::None && a.side(b.l) == 0 && a.side(b.r) == 0, "collinear, disjoint");
}

/// the two segments given in the other order
fn int_swap_body<F: Float>() {
    let n = P::N;
    let a = ISeg::any(n);
    let b = ISeg::any(n);
    let r1 = intersection::<F>(a.l.c(), a.r.c(), b.l.c(), b.r.c());
    let r2 = intersection::<F>(b.l.c(), b.r.c(), a.l.c(), a.r.c());
    let e = exact(&a, &b);
    match (r1, r2) {
        (LineIntersection::None, LineIntersection::None) => {}
        (LineIntersection::Point(p), LineIntersection::Point(q)) => {
            if is_endpoint(&e, &a).is_some() || is_endpoint(&e, &b).is_some() || (axis_parallel(&a) && axis_parallel(&b)) {
                assert!(p == q, "endpoint hits and axis-parallel crossings: identical point in either argument order");
            } else {
                assert!(near(p, e.xn, e.yn, e.d) && near(q, e.xn, e.yn, e.d), "both argument orders are within tolerance of the same exact point");
            }
        }
        (LineIntersection::Overlap(_, _), LineIntersection::Overlap(_, _)) => {}
        _ => assert!(false, "the kind of intersection does not depend on the argument order"),
    }
    kani::cover!(matches!(r1, LineIntersection::Point(_)), "point");
    kani::cover!(matches!(r1, LineIntersection::Overlap(_, _)), "overlap");
}

/// scaling all coordinates by 2^k scales the result bit-identically (C08)
fn int_scale_body<F: Float>() {
    let n = P::N;
    let a = ISeg::any(n);
    let b = ISeg::any(n);
    let k: i8 = kani::any();
    kani::assume(k >= -3 && k <= 3);
    let f: F = F::from(match k {
        -3 => 0.125,
        -2 => 0.25,
        -1 => 0.5,
        0 => 1.0,
        1 => 2.0,
        2 => 4.0,
        _ => 8.0,
    })
    .unwrap();
    let sc = |p: Coord<F>| Coord { x: p.x * f, y: p.y * f };
    let r1 = intersection::<F>(a.l.c(), a.r.c(), b.l.c(), b.r.c());
    let r2 = intersection::<F>(sc(a.l.c()), sc(a.r.c()), sc(b.l.c()), sc(b.r.c()));
    match (r1, r2) {
        (LineIntersection::None, LineIntersection::None) => {}
        (LineIntersection::Point(p), LineIntersection::Point(q)) => assert!(sc(p) == q, "scaled inputs give the bit-identically scaled point"),
        (LineIntersection::Overlap(p1, p2), LineIntersection::Overlap(q1, q2)) => {
            assert!(sc(p1) == q1 && sc(p2) == q2, "scaled inputs give the bit-identically scaled overlap")
        }
        _ => assert!(false, "scaling by a power of two does not change the kind of intersection"),
    }
    kani::cover!(matches!(r1, LineIntersection::Point(_)) && k != 0, "point, scaled");
    kani::cover!(matches!(r1, LineIntersection::Overlap(_, _)) && k < 0, "overlap, scaled down");
}

macro_rules! int_harness {
    ($name:ident, $body:ident, $f:ty) => {
        #[kani::proof]
        #[kani::unwind(3)]
        fn $name() {
            $body::<$f>()
        }
    };
}
int_harness!(int_classify_f32, int_classify_body, f32);
int_harness!(int_classify_f64, int_classify_body, f64);
int_harness!(int_swap_f32, int_swap_body, f32);
int_harness!(int_swap_f64, int_swap_body, f64);
int_harness!(int_scale_f32, int_scale_body, f32);
int_harness!(int_scale_f64, int_scale_body, f64);

/// C10: f32 and f64 agree coordinate for coordinate where the result is exactly representable by
/// construction (endpoint hits, axis-parallel crossings); elsewhere both are within their tolerance.
#[kani::proof]
#[kani::unwind(3)]
fn int_agree() {
    let n = P::N;
    let a = ISeg::any(n);
    let b = ISeg::any(n);
    let r32 = intersection::<f32>(a.l.c(), a.r.c(), b.l.c(), b.r.c());
    let r64 = intersection::<f64>(a.l.c(), a.r.c(), b.l.c(), b.r.c());
    let e = exact(&a, &b);
    match (r32, r64) {
        (LineIntersection::None, LineIntersection::None) => {}
        (LineIntersection::Point(p), LineIntersection::Point(q)) => {
            if is_endpoint(&e, &a).is_some() || is_endpoint(&e, &b).is_some() || (axis_parallel(&a) && axis_parallel(&b)) {
                assert!(p.x as f64 == q.x && p.y as f64 == q.y, "f32 and f64 agree coordinate for coordinate on representable results");
            }
        }
        (LineIntersection::Overlap(_, _), LineIntersection::Overlap(_, _)) => {}
        _ => assert!(false, "f32 and f64 agree on the kind of intersection"),
    }
    kani::cover!(matches!(r64, LineIntersection::Point(_)) && is_endpoint(&e, &b).is_some(), "endpoint hit");
    kani::cover!(matches!(r64, LineIntersection::Overlap(_, _)), "overlap");
}
