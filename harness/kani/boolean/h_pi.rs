//! L-PI: `possible_intersection`'s own logic, one match arm per harness.
//!  * None / Point arm: callees replaced by their contracts - `intersection` by a model that returns a
//!    fixed variant with a payload constrained by L-INT, `divide_segment` by the L-DIV model (relink at
//!    the point and record the request; no heap, no comparisons).
//!  * Overlap arm: geometry from concrete templates (9 interval configurations x 4 directions x which
//!    segment is the subject), real callees, only the in/out flags symbolic.

use super::super::divide_segment::divide_segment;
use super::super::helper::Float;
use super::super::possible_intersection::possible_intersection;
use super::super::segment_intersection::LineIntersection;
use super::super::sweep_event::{EdgeType, SweepEvent};
use super::common::*;
use super::h_ord::ISeg;
use crate::verif_params as P;
use geo_types::Coord;
use std::collections::BinaryHeap;
use std::rc::Rc;

// ------------------------------------------------------------------------------------------ models
#[derive(Clone, Copy)]
struct Req {
    seg: *const (),
    subject: bool,
    x: f64,
    y: f64,
}
static mut REQS: [Req; 4] = [Req { seg: std::ptr::null(), subject: false, x: 0.0, y: 0.0 }; 4];
static mut NREQ: usize = 0;
static mut MODEL_POINT: (f64, f64) = (0.0, 0.0);

/// L-DIV contract: the segment is relinked into two pieces meeting at the requested point
pub fn divide_segment_model<F: Float>(se_l: &Rc<SweepEvent<F>>, inter: Coord<F>, _queue: &mut BinaryHeap<Rc<SweepEvent<F>>>) {
    unsafe {
        if NREQ < 4 {
            REQS[NREQ] = Req { seg: Rc::as_ptr(se_l) as *const (), subject: se_l.is_subject, x: inter.x.into(), y: inter.y.into() };
        }
        NREQ += 1;
    }
    let se_r = match se_l.get_other_event() {
        Some(e) => e,
        None => return,
    };
    let r = SweepEvent::new_rc(se_l.contour_id, inter, false, Rc::downgrade(se_l), se_l.is_subject, true);
    let l = SweepEvent::new_rc(se_l.contour_id, inter, true, Rc::downgrade(&se_r), se_l.is_subject, true);
    se_l.set_other_event(&r);
    se_r.set_other_event(&l);
    std::mem::forget((l, r, se_r)); // the queue would own them
}
pub fn intersection_model_none<F: Float>(_a1: Coord<F>, _a2: Coord<F>, _b1: Coord<F>, _b2: Coord<F>) -> LineIntersection<F> {
    LineIntersection::None
}
pub fn intersection_model_point<F: Float>(_a1: Coord<F>, _a2: Coord<F>, _b1: Coord<F>, _b2: Coord<F>) -> LineIntersection<F> {
    let (x, y) = unsafe { MODEL_POINT };
    LineIntersection::Point(Coord { x: F::from(x).unwrap(), y: F::from(y).unwrap() })
}

// ------------------------------------------------------------------------------------------ None arm
#[kani::proof]
#[kani::unwind(3)]
#[kani::stub(super::super::segment_intersection::intersection, intersection_model_none)]
#[kani::stub(super::super::divide_segment::divide_segment, divide_segment_model)]
fn pi_none() {
    let n = P::N;
    let a = ISeg::any(n);
    let b = ISeg::any(n);
    let sa: Seg<f64> = a.build(1);
    let sb: Seg<f64> = b.build(2);
    sa.l.set_in_out(kani::any(), kani::any());
    sb.l.set_in_out(kani::any(), kani::any());
    let mut q = BinaryHeap::new();
    unsafe {
        NREQ = 0;
    }
    let r = possible_intersection(&sa.l, &sb.l, &mut q);
    assert!(r == 0, "no intersection: return code 0");
    assert!(unsafe { NREQ } == 0 && q.len() == 0, "no intersection: both segments untouched");
    assert!(sa.l.get_edge_type() == EdgeType::Normal && sb.l.get_edge_type() == EdgeType::Normal, "no intersection: edge types untouched");
    kani::cover!(a.subject != b.subject, "different operands");
    std::mem::forget((sa, sb, q));
}

// ------------------------------------------------------------------------------------------ Point arm
#[kani::proof]
#[kani::unwind(3)]
#[kani::stub(super::super::segment_intersection::intersection, intersection_model_point)]
#[kani::stub(super::super::divide_segment::divide_segment, divide_segment_model)]
fn pi_point() {
    let n = P::N;
    let a = ISeg::any(n);
    let b = ISeg::any(n);
    // the model's answer must be one L-INT allows: the segments have exactly one common point
    let (d1, d2, d3, d4) = (a.side(b.l), a.side(b.r), b.side(a.l), b.side(a.r));
    let opp = |p: i32, q: i32| (p <= 0 && q >= 0) || (p >= 0 && q <= 0);
    let collinear = d1 == 0 && d2 == 0;
    let touch_collinear = collinear && (a.r == b.l || b.r == a.l);
    kani::assume((!collinear && opp(d1, d2) && opp(d3, d4)) || touch_collinear);
    // payload: an endpoint hit returns that endpoint exactly; otherwise any point inside both boxes
    let (al, ar, bl, br): (Coord<f64>, Coord<f64>, Coord<f64>, Coord<f64>) = (a.l.c(), a.r.c(), b.l.c(), b.r.c());
    let hit: Option<Coord<f64>> = if d3 == 0 && !collinear {
        Some(al)
    } else if d4 == 0 && !collinear {
        Some(ar)
    } else if d1 == 0 && !collinear {
        Some(bl)
    } else if d2 == 0 && !collinear {
        Some(br)
    } else if touch_collinear {
        Some(if a.r == b.l { ar } else { al })
    } else {
        None
    };
    let p: Coord<f64> = match hit {
        Some(h) => h,
        None => {
            let (x, y): (f64, f64) = (kani::any(), kani::any());
            let inb = |lo: f64, hi: f64, v: f64| v >= lo.min(hi) && v <= lo.max(hi);
            kani::assume(inb(al.x, ar.x, x) && inb(bl.x, br.x, x) && inb(al.y, ar.y, y) && inb(bl.y, br.y, y));
            Coord { x, y }
        }
    };
    unsafe {
        MODEL_POINT = (p.x, p.y);
        NREQ = 0;
    }
    let sa: Seg<f64> = a.build(1);
    let sb: Seg<f64> = b.build(2);
    let mut q = BinaryHeap::new();
    let r = possible_intersection(&sa.l, &sb.l, &mut q);

    let share_end = a.l == b.l || a.r == b.r;
    let nreq = unsafe { NREQ };
    if share_end {
        assert!(r == 0 && nreq == 0, "segments that meet at a common left or right endpoint are left untouched (return code 0)");
    } else {
        assert!(r == 1, "a proper point intersection returns 1");
        let want_a = p != al && p != ar;
        let want_b = p != bl && p != br;
        assert!(nreq == want_a as usize + want_b as usize, "exactly the segments that contain the point in their interior are divided");
        // the requests, in either order
        let (ia, ib) = (Rc::as_ptr(&sa.l) as *const (), Rc::as_ptr(&sb.l) as *const ());
        let mut seen_a = false;
        let mut seen_b = false;
        let mut k = 0;
        while k < nreq && k < 2 {
            let rq = unsafe { REQS[k] };
            assert!(rq.x == p.x && rq.y == p.y, "every division is made at the one intersection point");
            assert!((rq.seg == ia && !seen_a) || (rq.seg == ib && !seen_b), "each segment is divided at most once");
            if rq.seg == ia {
                seen_a = true;
            } else {
                seen_b = true;
            }
            k += 1;
        }
        assert!(seen_a == want_a && seen_b == want_b, "a segment is divided iff the point is not one of its endpoints");
    }
    assert!(sa.l.get_edge_type() == EdgeType::Normal && sb.l.get_edge_type() == EdgeType::Normal, "a point intersection does not type the edges");
    kani::cover!(!share_end && hit.is_none(), "interior crossing: both divided");
    kani::cover!(!share_end && hit.is_some(), "T-junction: one divided");
    kani::cover!(share_end, "common endpoint");
    std::mem::forget((sa, sb, q));
}

// ------------------------------------------------------------------------------------------ Overlap arm
/// interval configurations (a = [a0,a1], b = [b0,b1] on a common line, positive common length)
const CONFIGS: [(u8, u8, u8, u8); 9] = [
    (0, 2, 0, 2), // identical
    (0, 1, 0, 3), // common left, a shorter
    (0, 3, 0, 2), // common left, b shorter
    (0, 3, 1, 3), // common right, a starts first
    (1, 3, 0, 3), // common right, b starts first
    (0, 2, 1, 3), // partial, a first
    (1, 3, 0, 2), // partial, b first
    (0, 3, 1, 2), // a contains b
    (1, 2, 0, 3), // b contains a
];
fn on_line(dir: u8, t: u8) -> IP {
    let t = t as i32;
    match dir {
        0 => IP { x: t, y: 1 },     // horizontal
        1 => IP { x: 1, y: t },     // vertical
        2 => IP { x: t, y: t },     // rising
        _ => IP { x: t, y: 3 - t }, // falling
    }
}
/// every left event created for operand-tagged segment `s` that sits in the queue: its point
fn pushed_lefts(npushed: usize, subject: bool, out: &mut [Coord<f64>; 4]) -> usize {
    // division points requested for the operand (each request creates one new left event there)
    let mut n = 0;
    let mut i = 0;
    while i < npushed / 2 && i < 4 {
        let rq = unsafe { REQS[i] };
        if rq.subject == subject {
            if n < 4 {
                out[n] = Coord { x: rq.x, y: rq.y };
            }
            n += 1;
        }
        i += 1;
    }
    n
}
fn overlap_case(dir: u8, cfg: (u8, u8, u8, u8), a_subject: bool, same_operand: bool) {
    let (a0, a1, b0, b1) = cfg;
    let (pa0, pa1, pb0, pb1) = (on_line(dir, a0), on_line(dir, a1), on_line(dir, b0), on_line(dir, b1));
    let sa: Seg<f64> = seg(pa0, pa1, a_subject, 1);
    let sb: Seg<f64> = seg(pb0, pb1, if same_operand { a_subject } else { !a_subject }, 2);
    // the falling direction runs right-to-left in t: `seg` orders the endpoints itself
    let (ain, bin): (bool, bool) = (kani::any(), kani::any());
    sa.l.set_in_out(ain, kani::any());
    sb.l.set_in_out(bin, kani::any());
    let mut q = BinaryHeap::new();
    unsafe {
        NREQ = 0;
    }
    let r = possible_intersection(&sa.l, &sb.l, &mut q);
    // the L-DIV model relinks the pieces and records each division request (segment operand, point)
    let nreq = unsafe { NREQ };
    let npushed = 2 * nreq;
    if same_operand {
        assert!(r == 0 && npushed == 0, "overlapping edges of one operand are left untouched (return code 0)");
        assert!(sa.l.get_edge_type() == EdgeType::Normal && sb.l.get_edge_type() == EdgeType::Normal, "no typing within one operand");
        std::mem::forget((sa, sb, q));
        return;
    }
    let (al, ar, bl, br) = (sa.l.point, sa.r.point, sb.l.point, sb.r.point);
    let lex_lt = |p: Coord<f64>, q: Coord<f64>| p.x < q.x || (p.x == q.x && p.y < q.y);
    let strictly_inside = |p: Coord<f64>, l: Coord<f64>, r: Coord<f64>| lex_lt(l, p) && lex_lt(p, r);
    // expected: every segment is split at exactly those endpoints of the other one that lie strictly inside it
    let mut exp_a = [al; 2];
    let mut na = 0;
    if strictly_inside(bl, al, ar) { exp_a[na] = bl; na += 1; }
    if strictly_inside(br, al, ar) { exp_a[na] = br; na += 1; }
    let mut exp_b = [bl; 2];
    let mut nb = 0;
    if strictly_inside(al, bl, br) { exp_b[nb] = al; nb += 1; }
    if strictly_inside(ar, bl, br) { exp_b[nb] = ar; nb += 1; }
    assert!(r == if al == bl { 2 } else { 3 }, "return code 2 for a common left endpoint (fields must be recomputed), else 3");
    assert!(npushed == 2 * (na + nb), "one division (two new events) per endpoint lying strictly inside the other segment");
    let mut got = [al; 4];
    let ga = pushed_lefts(npushed, a_subject, &mut got);
    assert!(ga == na && (na < 1 || got[0] == exp_a[0] || got[0] == exp_a[na - 1]) && (na < 2 || (got[0] != got[1] && (got[1] == exp_a[0] || got[1] == exp_a[1]))),
        "the first segment is split exactly at the other segment's endpoints inside it");
    let gb = pushed_lefts(npushed, !a_subject, &mut got);
    assert!(gb == nb && (nb < 1 || got[0] == exp_b[0] || got[0] == exp_b[nb - 1]) && (nb < 2 || (got[0] != got[1] && (got[1] == exp_b[0] || got[1] == exp_b[1]))),
        "the second segment is split exactly at the other segment's endpoints inside it");
    // the first piece of each segment ends at its first division point
    let first_a = sa.l.get_other_event().unwrap();
    let first_b = sb.l.get_other_event().unwrap();
    assert!(first_a.point == if na > 0 { exp_a[0] } else { ar }, "the first piece of the first segment ends at the first division point");
    assert!(first_b.point == if nb > 0 { exp_b[0] } else { br }, "the first piece of the second segment ends at the first division point");
    if al == bl {
        assert!(sb.l.get_edge_type() == EdgeType::NonContributing, "common left endpoint: the upper twin does not contribute");
        assert!(sa.l.get_edge_type() == if ain == bin { EdgeType::SameTransition } else { EdgeType::DifferentTransition }, "common left endpoint: the lower twin is typed by equal / opposite in_out");
        assert!(first_a.point == first_b.point, "common left endpoint: afterwards the twins coincide completely");
    } else {
        assert!(sa.l.get_edge_type() == EdgeType::Normal && sb.l.get_edge_type() == EdgeType::Normal, "different left endpoints: typing is left to the later event");
    }
    std::mem::forget((sa, sb, q, first_a, first_b));
}
macro_rules! pi_overlap {
    ($name:ident, $dir:expr, $cfg:expr, $a_subject:expr, $same:expr) => {
        #[kani::proof]
        #[kani::unwind(5)]
        #[kani::stub(robust::orient2d, super::common::orient2d_stub)]
        #[kani::stub(super::super::divide_segment::divide_segment, divide_segment_model)]
        fn $name() {
            overlap_case($dir, CONFIGS[$cfg], $a_subject, $same);
            kani::cover!(true, "template executed");
        }
    };
}
// name: pi_ov_<direction><config><s|c: first segment is subject|clipping>
// configs: 0 identical, 1 common left a shorter, 2 common left b shorter, 3 common right a first,
//          4 common right b first, 5 partial a first, 6 partial b first, 7 a contains b, 8 b contains a
pi_overlap!(pi_ov_h0s, 0, 0, true, false);
pi_overlap!(pi_ov_h1c, 0, 1, false, false);
pi_overlap!(pi_ov_h2s, 0, 2, true, false);
pi_overlap!(pi_ov_h3s, 0, 3, true, false);
pi_overlap!(pi_ov_h4c, 0, 4, false, false);
pi_overlap!(pi_ov_h5s, 0, 5, true, false);
pi_overlap!(pi_ov_h6c, 0, 6, false, false);
pi_overlap!(pi_ov_h7s, 0, 7, true, false);
pi_overlap!(pi_ov_h8c, 0, 8, false, false);
pi_overlap!(pi_ov_h5_same, 0, 5, true, true);
pi_overlap!(pi_ov_v0c, 1, 0, false, false);
pi_overlap!(pi_ov_v1s, 1, 1, true, false);
pi_overlap!(pi_ov_v2c, 1, 2, false, false);
pi_overlap!(pi_ov_v3c, 1, 3, false, false);
pi_overlap!(pi_ov_v4s, 1, 4, true, false);
pi_overlap!(pi_ov_v5c, 1, 5, false, false);
pi_overlap!(pi_ov_v6s, 1, 6, true, false);
pi_overlap!(pi_ov_v7c, 1, 7, false, false);
pi_overlap!(pi_ov_v8s, 1, 8, true, false);
pi_overlap!(pi_ov_v1_same, 1, 1, false, true);
pi_overlap!(pi_ov_r1s, 2, 1, true, false);
pi_overlap!(pi_ov_r4c, 2, 4, false, false);
pi_overlap!(pi_ov_r6s, 2, 6, true, false);
pi_overlap!(pi_ov_r7c, 2, 7, false, false);
pi_overlap!(pi_ov_f2s, 3, 2, true, false);
pi_overlap!(pi_ov_f3c, 3, 3, false, false);
pi_overlap!(pi_ov_f5s, 3, 5, true, false);
pi_overlap!(pi_ov_f6c, 3, 6, false, false);
pi_overlap!(pi_ov_f8s, 3, 8, true, false);
