//! G-SWEEP, protocol part: the sweep loop of `subdivide` on concrete stacks of segments, with its
//! three callees replaced by recorders (compare_segments: the vertical order of the template,
//! compute_fields: recorder, possible_intersection: recorder with an arbitrary return code).
//! Decides: neighbour checks on insertion (event vs next, prev vs event) and after removal
//! (prev vs next), in (lower, upper) argument order, independent of operand tags; recomputation on
//! return code 2; the early-exit rule; every popped event is reported.  The event queue is environment
//! (`BinaryHeap::pop` delivers the template's events in sweep order), and so is the sweep-line status
//! (a sorted array standing in for SplaySet, whose own behaviour is C17).  What the neighbour checks imply for planarity stays a paper step.

use super::super::helper::{BoundingBox, Float};
use super::super::subdivide_segments::subdivide;
use super::super::sweep_event::SweepEvent;
use super::super::Operation;
use super::common::*;
use geo_types::Coord;
use std::cmp::Ordering;
use std::collections::BinaryHeap;
use std::rc::Rc;

type Ptr = *const ();
#[derive(Clone, Copy, PartialEq)]
enum Call {
    Pi(Ptr, Ptr),
    Cf(Ptr, Ptr),
}
const MAXLOG: usize = 24;
static mut LOG: [Call; MAXLOG] = [Call::Pi(std::ptr::null(), std::ptr::null()); MAXLOG];
static mut NLOG: usize = 0;
static mut PI_CODES: [u8; 8] = [0; 8];
static mut NPI: usize = 0;

fn log(c: Call) {
    unsafe {
        if NLOG < MAXLOG {
            LOG[NLOG] = c;
        }
        NLOG += 1;
    }
}
fn id<F: Float>(e: &Rc<SweepEvent<F>>) -> Ptr {
    Rc::as_ptr(e) as Ptr
}
/// template order: by the height of the left endpoint (the templates are stacks of disjoint segments)
pub fn compare_segments_model<F: Float>(a: &Rc<SweepEvent<F>>, b: &Rc<SweepEvent<F>>) -> Ordering {
    if Rc::ptr_eq(a, b) {
        Ordering::Equal
    } else if a.point.y < b.point.y {
        Ordering::Less
    } else {
        Ordering::Greater
    }
}
pub fn compute_fields_model<F: Float>(event: &Rc<SweepEvent<F>>, maybe_prev: Option<&Rc<SweepEvent<F>>>, _operation: Operation) {
    log(Call::Cf(id(event), maybe_prev.map(id).unwrap_or(std::ptr::null())));
}
pub fn possible_intersection_model<F: Float>(se1: &Rc<SweepEvent<F>>, se2: &Rc<SweepEvent<F>>, _queue: &mut BinaryHeap<Rc<SweepEvent<F>>>) -> u8 {
    log(Call::Pi(id(se1), id(se2)));
    unsafe {
        let c = if NPI < 8 { PI_CODES[NPI] } else { 0 };
        NPI += 1;
        c
    }
}

// ---- the sweep-line status as environment: a sorted array of at most three events, ordered by the
// template's vertical order (height of the left endpoint).  The real SplaySet is the subject of C17;
// its node type's recursive drop glue makes any harness that needs an unwind bound >= 8 (the sweep
// loop itself runs 7 times here) intractable.
use crate::splay::SplaySet;
static mut STATUS: [*const (); 3] = [std::ptr::null(); 3]; // slot k = the segment at height k, if present
fn height_of<T>(t: &T) -> usize {
    assert!(std::mem::size_of::<T>() == std::mem::size_of::<*const ()>());
    let e: Rc<SweepEvent<f64>> = unsafe { std::mem::transmute_copy(t) };
    let h = e.point.y as usize;
    std::mem::forget(e);
    h
}
fn slot_ref<'a, T>(k: usize) -> &'a T {
    unsafe { &*(&STATUS[k] as *const *const () as *const T) }
}
pub fn set_insert_model<T, C: Fn(&T, &T) -> Ordering>(_s: &mut SplaySet<T, C>, t: T) -> bool {
    let h = height_of(&t);
    let fresh = unsafe { STATUS[h].is_null() };
    unsafe {
        STATUS[h] = std::mem::transmute_copy(&t);
    }
    std::mem::forget(t);
    fresh
}
pub fn set_remove_model<T, C: Fn(&T, &T) -> Ordering>(_s: &mut SplaySet<T, C>, t: &T) -> bool {
    let h = height_of(t);
    let was = unsafe { !STATUS[h].is_null() };
    unsafe {
        STATUS[h] = std::ptr::null();
    }
    was
}
pub fn set_contains_model<T, C: Fn(&T, &T) -> Ordering>(_s: &SplaySet<T, C>, t: &T) -> bool {
    unsafe { !STATUS[height_of(t)].is_null() }
}
pub fn set_prev_model<'a, T, C: Fn(&T, &T) -> Ordering>(_s: &'a SplaySet<T, C>, t: &T) -> Option<&'a T> {
    let h = height_of(t);
    unsafe {
        if h >= 2 && !STATUS[1].is_null() {
            return Some(slot_ref(1));
        }
        if h >= 1 && !STATUS[0].is_null() {
            return Some(slot_ref(0));
        }
    }
    None
}
pub fn set_next_model<'a, T, C: Fn(&T, &T) -> Ordering>(_s: &'a SplaySet<T, C>, t: &T) -> Option<&'a T> {
    let h = height_of(t);
    unsafe {
        if h == 0 && !STATUS[1].is_null() {
            return Some(slot_ref(1));
        }
        if h <= 1 && !STATUS[2].is_null() {
            return Some(slot_ref(2));
        }
    }
    None
}

fn c(x: f64, y: f64) -> Coord<f64> {
    Coord { x, y }
}
fn any_op() -> Operation {
    match kani::any::<u8>() & 3 {
        0 => Operation::Intersection,
        1 => Operation::Union,
        2 => Operation::Xor,
        _ => Operation::Difference,
    }
}

/// three stacked segments A (bottom), B, C (top) given by their x-extents; the reference simulates the
/// documented loop on the event list (sorted by x; all x distinct in the templates)
/// mode 0: the complete sweep (operation Union, no early exit) with symbolic operand tags and return
/// codes; mode 1: the early-exit rule (operation and box limits symbolic, tags and codes concrete)
fn stack3(ax: (f64, f64), bx: (f64, f64), cx: (f64, f64), mode: u8, tags: (bool, bool, bool)) {
    let (ta, tb, tc): (bool, bool, bool) = if mode == 0 { (kani::any(), kani::any(), kani::any()) } else { tags };
    let a = seg_c(c(ax.0, 0.), c(ax.1, 0.), ta, 1);
    let b = seg_c(c(bx.0, 1.), c(bx.1, 1.), tb, 2);
    let cc = seg_c(c(cx.0, 2.), c(cx.1, 2.), tc, 3);
    let op = if mode == 0 { Operation::Union } else { any_op() };
    // boxes: only max.x matters to subdivide; chosen among values between the event abscissas
    let pick = |k: u8| -> f64 {
        match k % 4 {
            0 => 0.5,
            1 => 3.5,
            2 => 7.5,
            _ => 50.0,
        }
    };
    // mode 1: the exact boxes of the operands (hull of the segments by operand tag), as queue filling computes them
    let hull = |want: bool| -> (f64, f64) {
        let mut lo = f64::INFINITY;
        let mut hi = f64::NEG_INFINITY;
        if ta == want {
            lo = lo.min(ax.0);
            hi = hi.max(ax.1);
        }
        if tb == want {
            lo = lo.min(bx.0);
            hi = hi.max(bx.1);
        }
        if tc == want {
            lo = lo.min(cx.0);
            hi = hi.max(cx.1);
        }
        (lo, hi)
    };
    let _ = pick;
    let ((smin, smax), (cmin, cmax)) = if mode == 0 { ((-50.0, 50.0), (-50.0, 50.0)) } else { (hull(true), hull(false)) };
    let sb = BoundingBox { min: c(smin, 0.), max: c(smax, 2.) };
    let cb = BoundingBox { min: c(cmin, 0.), max: c(cmax, 2.) };
    let mut codes = [0u8; 8];
    let mut i = 0;
    while mode == 0 && i < 4 {
        // only the value 2 changes what subdivide does with a return code
        let k: u8 = kani::any();
        kani::assume(k < 3);
        codes[i] = k;
        i += 1;
    }
    unsafe {
        PI_CODES = codes;
        NPI = 0;
        NLOG = 0;
        STATUS = [std::ptr::null(); 3];
    }
    // ---- reference: events by abscissa (distinct), status as a sorted stack of at most three
    let evs: [(f64, u8, bool); 6] = {
        let mut e = [(ax.0, 0u8, true), (ax.1, 0, false), (bx.0, 1, true), (bx.1, 1, false), (cx.0, 2, true), (cx.1, 2, false)];
        // insertion sort by x
        let mut i = 1;
        while i < 6 {
            let mut j = i;
            while j > 0 && e[j - 1].0 > e[j].0 {
                e.swap(j - 1, j);
                j -= 1;
            }
            i += 1;
        }
        e
    };
    // the event queue is environment here (BinaryHeap::pop is scripted): it delivers the six events in
    // sweep order, which for distinct abscissas is the order by x
    let mut q: BinaryHeap<Rc<SweepEvent<f64>>> = BinaryHeap::new();
    unsafe {
        NSCRIPT = 0;
        ISCRIPT = 0;
    }
    let mut k = 0;
    while k < 6 {
        let (_, s, left) = evs[k];
        let sg = if s == 0 { &a } else if s == 1 { &b } else { &cc };
        script_push(if left { &sg.l } else { &sg.r });
        // natively (replay) the real heap delivers the events; under Kani `pop` is scripted and the
        // heap's contents are never looked at
        q.push(if left { sg.l.clone() } else { sg.r.clone() });
        k += 1;
    }

    let sorted = subdivide(&mut q, &sb, &cb, op);

    let ids = [id(&a.l), id(&b.l), id(&cc.l)];
    let rids = [id(&a.r), id(&b.r), id(&cc.r)];
    let mut present = [false; 3];
    let mut exp: [Call; MAXLOG] = [Call::Pi(std::ptr::null(), std::ptr::null()); MAXLOG];
    let mut ne = 0usize;
    let mut npi = 0usize;
    let mut processed = 0usize;
    let rightbound = if smax < cmax { smax } else { cmax };
    let mut k = 0;
    while k < 6 {
        let (x, s, left) = evs[k];
        processed += 1;
        assert!(sorted.len() >= processed && id(&sorted[processed - 1]) == if left { ids[s as usize] } else { rids[s as usize] }, "every popped event is reported, in sweep order");
        if (op == Operation::Intersection && x > rightbound) || (op == Operation::Difference && x > smax) {
            break;
        }
        let s = s as usize;
        // neighbours in the status (excluding s)
        let below = |p: &[bool; 3], s: usize| -> Option<usize> {
            let mut r = None;
            let mut t = 0;
            while t < s {
                if p[t] {
                    r = Some(t);
                }
                t += 1;
            }
            r
        };
        let above = |p: &[bool; 3], s: usize| -> Option<usize> {
            let mut t = s + 1;
            while t < 3 {
                if p[t] {
                    return Some(t);
                }
                t += 1;
            }
            None
        };
        if left {
            present[s] = true;
            let (pv, nx) = (below(&present, s), above(&present, s));
            let pvid = pv.map(|t| ids[t]).unwrap_or(std::ptr::null());
            exp[ne] = Call::Cf(ids[s], pvid);
            ne += 1;
            if let Some(n) = nx {
                exp[ne] = Call::Pi(ids[s], ids[n]);
                ne += 1;
                let code = codes[npi];
                npi += 1;
                if code == 2 {
                    exp[ne] = Call::Cf(ids[s], pvid);
                    exp[ne + 1] = Call::Cf(ids[n], ids[s]);
                    ne += 2;
                }
            }
            if let Some(p) = pv {
                exp[ne] = Call::Pi(ids[p], ids[s]);
                ne += 1;
                let code = codes[npi];
                npi += 1;
                if code == 2 {
                    let ppid = below(&present, p).map(|t| ids[t]).unwrap_or(std::ptr::null());
                    exp[ne] = Call::Cf(ids[p], ppid);
                    exp[ne + 1] = Call::Cf(ids[s], ids[p]);
                    ne += 2;
                }
            }
        } else {
            let (pv, nx) = (below(&present, s), above(&present, s));
            if let (Some(p), Some(n)) = (pv, nx) {
                exp[ne] = Call::Pi(ids[p], ids[n]);
                ne += 1;
                npi += 1;
            }
            present[s] = false;
        }
        k += 1;
    }
    assert!(sorted.len() == processed, "the sweep stops at the first event beyond the relevant box (intersection: either box, difference: subject box) and reports it");
    assert!(unsafe { NLOG } == ne, "exactly the documented neighbour checks and field computations are made");
    let mut t = 0;
    while t < ne && t < MAXLOG {
        assert!(unsafe { LOG[t] } == exp[t], "call protocol: fields from the predecessor, then (event, next), then (prev, event); after a removal (prev, next); recomputation bottom-to-top on return code 2");
        t += 1;
    }
    kani::cover!(mode == 1 || (processed == 6 && ta == tc && ta != tb), "full sweep, outer segments of one operand");
    kani::cover!(mode == 0 || processed < 6 || op == Operation::Xor, "early exit taken (or: an operation without early exit)");
    kani::cover!(mode == 1 || (processed == 6 && codes[0] == 2), "recomputation after a coincident pair");
    std::mem::forget((a, b, cc, sorted, q));
}
macro_rules! sweep_h {
    ($name:ident, $a:expr, $b:expr, $c:expr, $mode:expr) => {
        sweep_h!($name, $a, $b, $c, $mode, (true, false, true));
    };
    ($name:ident, $a:expr, $b:expr, $c:expr, $mode:expr, $tags:expr) => {
        #[kani::proof]
        #[kani::unwind(16)]
        #[kani::stub(crate::splay::SplaySet::insert, set_insert_model)]
        #[kani::stub(crate::splay::SplaySet::remove, set_remove_model)]
        #[kani::stub(crate::splay::SplaySet::contains, set_contains_model)]
        #[kani::stub(crate::splay::SplaySet::prev, set_prev_model)]
        #[kani::stub(crate::splay::SplaySet::next, set_next_model)]
        #[kani::stub(super::super::compare_segments::compare_segments, compare_segments_model)]
        #[kani::stub(super::super::compute_fields::compute_fields, compute_fields_model)]
        #[kani::stub(super::super::possible_intersection::possible_intersection, possible_intersection_model)]
        #[kani::stub(std::collections::BinaryHeap::pop, super::common::heap_pop_scripted)]
        #[kani::stub(std::collections::BinaryHeap::push, super::common::heap_push_record)]
        fn $name() {
            stack3($a, $b, $c, $mode, $tags)
        }
    };
}
// middle segment ends first: its removal makes the outer two neighbours
sweep_h!(sweep_protocol_mid_removed, (0., 10.), (1., 5.), (2., 11.), 0);
// early exit with the operands' exact boxes: subject A, C and clipping B (ends first)
sweep_h!(sweep_early_exit, (0., 10.), (1., 5.), (2., 11.), 1, (true, false, true));
// a clipping segment entirely left of the subject, below another clipping segment that reaches over it
sweep_h!(sweep_early_exit_clip_left, (0., 10.), (-5., -1.), (-6., 11.), 1, (true, false, false));
// bottom and top end before the middle one: removals without two neighbours
sweep_h!(sweep_protocol_mid_last, (0., 4.), (1., 9.), (2., 6.), 0);
// inserted between two present segments
sweep_h!(sweep_protocol_insert_between, (0., 10.), (3., 6.), (1., 11.), 0);
