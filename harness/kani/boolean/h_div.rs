//! L-DIV: `divide_segment` on the lattice (D-INT) and on the one-ulp lattice (D-ULP).
use super::super::divide_segment::divide_segment;
use super::super::helper::{Float, NextAfter};
use super::super::sweep_event::{EdgeType, SweepEvent};
use super::common::*;
use super::h_ord::ISeg;
use crate::verif_params as P;
use geo_types::Coord;
use std::collections::BinaryHeap;
use std::rc::Rc;

/// checks everything `divide_segment(se_l, p)` promises, given the segment's original endpoints
fn check_division<F: Float>(sl: &Rc<SweepEvent<F>>, sr: &Rc<SweepEvent<F>>, pl: Coord<F>, pr: Coord<F>, p: Coord<F>, subject: bool, cid: u32, v: Vec<Rc<SweepEvent<F>>>) -> bool {
    assert!(v.len() == 2, "exactly the two new events are pushed");
    let r_new = sl.get_other_event().unwrap();
    let l_new = sr.get_other_event().unwrap();
    assert!(!Rc::ptr_eq(&r_new, sr) && !Rc::ptr_eq(&l_new, sl), "both original events are relinked to new events");
    assert!((Rc::ptr_eq(&v[0], &r_new) && Rc::ptr_eq(&v[1], &l_new)) || (Rc::ptr_eq(&v[1], &r_new) && Rc::ptr_eq(&v[0], &l_new)), "the pushed events are the two new ones");
    assert!(Rc::ptr_eq(&r_new.get_other_event().unwrap(), sl) && Rc::ptr_eq(&l_new.get_other_event().unwrap(), sr), "both pieces are mutually linked pairs");
    assert!(sl.point == pl && sr.point == pr, "the original endpoints are unchanged");
    assert!(r_new.point == l_new.point, "both pieces meet in one point");
    let got = r_new.point;
    // the realised point: the requested one, or the documented one-ulp bump (corner case 1)
    let corner1 = p.x == pl.x && p.y < pl.y;
    assert!(
        got == p || (corner1 && got.x == p.x.nextafter(true) && got.y == p.y),
        "the division point is the requested point, or the requested point bumped by one ulp in x when it is exactly below the left endpoint"
    );
    assert!(got == p, "[KF4] the segment is split exactly at the requested point (both segments of an intersection get the same point)");
    assert!(got != pl && got != pr, "both pieces have non-zero length");
    // sweep order of events at different points is lexicographic (x, then y): compared on the
    // coordinates directly (the event order itself is the subject of the C15 harnesses)
    let lex_lt = |a: Coord<F>, b: Coord<F>| a.x < b.x || (a.x == b.x && a.y < b.y);
    // left piece: se_l stays the left event, its new partner is a right event that comes later
    assert!(sl.is_left() && !r_new.is_left(), "left piece: (se_l, r) is a left/right pair");
    assert!(lex_lt(pl, got), "left piece: left event first in sweep order; the new events lie in the future of the sweep");
    // right piece: exactly one left event, and it is the earlier one (corner case 2 swaps the roles)
    assert!(l_new.is_left() != sr.is_left(), "right piece: exactly one of (l, se_r) is the left event");
    assert!(l_new.is_left() == lex_lt(got, pr), "right piece: left event first in sweep order");
    assert!(
        r_new.is_subject == subject && l_new.is_subject == subject && r_new.contour_id == cid && l_new.contour_id == cid,
        "operand tag and contour id are inherited"
    );
    let swapped = !l_new.is_left();
    std::mem::forget((v, r_new, l_new));
    swapped
}

/// D-INT: any lattice segment, any lattice point strictly inside it (the requested point of a division
/// is a point of the segment up to rounding, L-INT; rounding effects are the subject of D-ULP below)
fn divide_body<F: Float>() {
    let n = P::N;
    let s = ISeg::any(n);
    let cid: u32 = kani::any();
    kani::assume(cid < 8);
    let p = IP::any(n);
    let (ylo, yhi) = if s.l.y < s.r.y { (s.l.y, s.r.y) } else { (s.r.y, s.l.y) };
    kani::assume(p.x >= s.l.x && p.x <= s.r.x && p.y >= ylo && p.y <= yhi);
    kani::assume(p != s.l && p != s.r && s.side(p) == 0);
    let sg: Seg<F> = s.build(cid);
    let mut q = BinaryHeap::new();
    divide_segment(&sg.l, p.c(), &mut q);
    let swapped = check_division(&sg.l, &sg.r, s.l.c(), s.r.c(), p.c(), s.subject, cid, q.into_vec());
    assert!(!swapped, "a division point on the segment never needs the left/right swap");
    kani::cover!(s.vertical(), "vertical segment divided");
    kani::cover!(!s.vertical() && s.l.y != s.r.y, "slanted segment divided");
    std::mem::forget(sg);
}
macro_rules! divide_h {
    ($name:ident, $f:ty) => {
        #[kani::proof]
        #[kani::unwind(4)]
        #[kani::stub(robust::orient2d, super::common::orient2d_stub)]
        fn $name() {
            divide_body::<$f>()
        }
    };
}
divide_h!(divide_contract_f64, f64);
divide_h!(divide_contract_f32, f32);

/// D-ULP: near-vertical slivers at the resolution limit: x = 1 + i*ulp(1), i < 4; y small integers.
/// Here the computed intersection can fall exactly below the left endpoint (corner case 1).
fn ulp_x<F: Float>(i: u8) -> F {
    ulp_x_from(F::one(), i)
}
fn ulp_x_from<F: Float>(base: F, i: u8) -> F {
    let mut x = base;
    let mut k = 0;
    while k < i {
        x = x.nextafter(true);
        k += 1;
    }
    x
}
fn divide_ulp_body<F: Float>() {
    divide_ulp_body_from::<F>(F::one())
}
/// base = 1: neighbouring abscissas differ by exactly EPSILON; base = 1/2: by EPSILON/2, so that
/// tolerance-style comparisons (|dx| < EPSILON) and exact comparisons can be told apart
fn divide_ulp_body_from<F: Float>(base: F) {
    let ulp_x = |i: u8| ulp_x_from(base, i);
    let (i0, i1, ip) = (idx(3), idx(3), idx(3));
    let (y0, y1, yp) = (idx(4), idx(4), idx(4));
    kani::assume(i0 < i1 || (i0 == i1 && y0 < y1)); // left endpoint first
    let pl: Coord<F> = Coord { x: ulp_x(i0), y: F::from(y0).unwrap() };
    let pr: Coord<F> = Coord { x: ulp_x(i1), y: F::from(y1).unwrap() };
    let p: Coord<F> = Coord { x: ulp_x(ip), y: F::from(yp).unwrap() };
    let (ylo, yhi) = if y0 < y1 { (y0, y1) } else { (y1, y0) };
    kani::assume(ip >= i0 && ip <= i1 && yp >= ylo && yp <= yhi);
    kani::assume(p != pl && p != pr);
    // L-INT: a requested point is (up to rounding in x) a point of the segment, and endpoint hits are
    // returned exactly: so it lies strictly between the endpoints in y (in x for a horizontal segment)
    kani::assume(if y0 != y1 { yp > ylo && yp < yhi } else { ip > i0 && ip < i1 });
    let subject: bool = kani::any();
    let sg = seg_c(pl, pr, subject, 1);
    let mut q = BinaryHeap::new();
    unsafe {
        NPUSHED = 0;
    }
    divide_segment(&sg.l, p, &mut q);
    kani::cover!(p.x == pl.x && p.y < pl.y, "corner case 1: requested point exactly below the left endpoint");
    kani::cover!(p.x == pr.x && p.y > pr.y, "corner case 2: vertical remainder, roles swapped");
    // the heap is environment here (push recorded): what is pushed is the subject
    assert!(unsafe { NPUSHED } == 2, "exactly the two new events are pushed");
    let v = vec![pushed::<F>(0), pushed::<F>(1)];
    std::mem::forget(q);
    let swapped = check_division(&sg.l, &sg.r, pl, pr, p, subject, 1, v);
    assert!(swapped == (p.x == pr.x && p.y > pr.y), "roles are swapped exactly for a vertical remainder above the right endpoint");
    std::mem::forget(sg);
}
// On D-ULP the orientation predicate is reached when the heap compares the two new events after the
// left/right swap of corner case 2 (two right events at one point).  All coordinates are 1 + i*ulp or
// small integers, so every product of differences in the determinant is an exact small multiple of
// ulp: the plain determinant (common::orient2d_stub) is exact on this lattice as well.
macro_rules! divide_ulp_h {
    ($name:ident, $f:ty) => {
        #[kani::proof]
        #[kani::unwind(5)]
        #[kani::stub(robust::orient2d, super::common::orient2d_stub)]
        #[kani::stub(std::collections::BinaryHeap::push, super::common::heap_push_record)]
        fn $name() {
            divide_ulp_body::<$f>()
        }
    };
}
divide_ulp_h!(divide_ulp_f64, f64);
divide_ulp_h!(divide_ulp_f32, f32);
#[kani::proof]
#[kani::unwind(5)]
#[kani::stub(robust::orient2d, super::common::orient2d_stub)]
#[kani::stub(std::collections::BinaryHeap::push, super::common::heap_push_record)]
fn divide_ulp_half_f64() {
    divide_ulp_body_from::<f64>(0.5)
}
