//! C10 / C08: `signed_area` (argument order, lossless widening of f32 to f64) on a large exact domain:
//! fixed-point coordinates m * 2^-10 with |m| < 2^22 (all representable in f32).  For such inputs the
//! determinant's differences (<= 23 bits), products (<= 46 bits) and final difference are exact in
//! f64, so the plain determinant standing in for `robust::orient2d` is exact, and the harness's own
//! i64 determinant is the reference for the sign.
use super::super::helper::Float;
use super::super::signed_area::signed_area;
use geo_types::Coord;

fn fx() -> (i64, f32) {
    let m: i32 = kani::any();
    kani::assume(m > -(1 << 22) && m < (1 << 22));
    (m as i64, (m as f32) * (1.0 / 1024.0))
}
fn sign(v: f64) -> i32 {
    if v > 0.0 {
        1
    } else if v < 0.0 {
        -1
    } else {
        0
    }
}
fn sa_body<F: Float>(conv: fn(f32) -> F) {
    let (ax, fax) = fx();
    let (ay, fay) = fx();
    let (bx, fbx) = fx();
    let (by, fby) = fx();
    let (cx, fcx) = fx();
    let (cy, fcy) = fx();
    let r = signed_area(Coord { x: conv(fax), y: conv(fay) }, Coord { x: conv(fbx), y: conv(fby) }, Coord { x: conv(fcx), y: conv(fcy) });
    // orient2d(pa, pb, pc) = (pa.x - pc.x)(pb.y - pc.y) - (pa.y - pc.y)(pb.x - pc.x)
    let det: i64 = (ax - cx) * (by - cy) - (ay - cy) * (bx - cx);
    let want = if det > 0 { 1 } else if det < 0 { -1 } else { 0 };
    assert!(sign(r) == want, "signed_area has the exact sign of the determinant of (p0, p1, p2) in that order");
    kani::cover!(det == 0 && ax != bx && ay != by, "collinear, not axis-parallel");
    kani::cover!(det != 0 && det > -4 && det < 4, "nearly collinear");
}
fn id32(v: f32) -> f32 {
    v
}
fn wide(v: f32) -> f64 {
    v as f64
}
#[kani::proof]
#[kani::unwind(3)]
#[kani::stub(robust::orient2d, super::common::orient2d_stub)]
fn signed_area_fix_f32() {
    sa_body::<f32>(id32)
}
#[kani::proof]
#[kani::unwind(3)]
#[kani::stub(robust::orient2d, super::common::orient2d_stub)]
fn signed_area_fix_f64() {
    sa_body::<f64>(wide)
}
