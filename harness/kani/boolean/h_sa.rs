//! C10: `signed_area` - the orientation predicate must be evaluated in f64 on losslessly widened
//! coordinates, in the argument order (p0, p1, p2).  `robust::orient2d` is replaced by a recorder that
//! stores the six f64 values it receives and answers with an arbitrary value; the harness asserts that
//! exactly the widened inputs arrive, in order, and that the answer is handed back unchanged - for ALL
//! finite f32 / f64 inputs (full range).  Any arithmetic done in the coordinate type before widening
//! (e.g. a filter evaluated in f32) bypasses or alters the call and is reported.
use super::super::helper::Float;
use super::super::signed_area::signed_area;
use geo_types::Coord;

static mut ARGS: [f64; 6] = [0.0; 6];
static mut CALLS: u8 = 0;
static mut ANSWER: f64 = 0.0;

pub fn orient2d_recorder<T: Into<f64>>(pa: robust::Coord<T>, pb: robust::Coord<T>, pc: robust::Coord<T>) -> f64 {
    unsafe {
        ARGS = [pa.x.into(), pa.y.into(), pb.x.into(), pb.y.into(), pc.x.into(), pc.y.into()];
        CALLS += 1;
        ANSWER
    }
}
fn forwards<F: Float + kani::Arbitrary>() {
    let v: [F; 6] = [kani::any(), kani::any(), kani::any(), kani::any(), kani::any(), kani::any()];
    kani::assume(v[0].is_finite() && v[1].is_finite() && v[2].is_finite() && v[3].is_finite() && v[4].is_finite() && v[5].is_finite());
    let ans: f64 = kani::any();
    kani::assume(!ans.is_nan());
    unsafe {
        CALLS = 0;
        ANSWER = ans;
    }
    let r = signed_area(Coord { x: v[0], y: v[1] }, Coord { x: v[2], y: v[3] }, Coord { x: v[4], y: v[5] });
    let w: [f64; 6] = [v[0].into(), v[1].into(), v[2].into(), v[3].into(), v[4].into(), v[5].into()];
    assert!(unsafe { CALLS } == 1, "signed_area evaluates the robust predicate exactly once (no arithmetic of its own in the coordinate type)");
    let a = unsafe { ARGS };
    assert!(
        a[0] == w[0] && a[1] == w[1] && a[2] == w[2] && a[3] == w[3] && a[4] == w[4] && a[5] == w[5],
        "the predicate receives the losslessly widened coordinates of (p0, p1, p2) in that order"
    );
    assert!(r == ans, "the predicate's value is returned unchanged");
    kani::cover!(v[0] != v[2] && v[1] != v[3], "generic triple");
}
#[kani::proof]
#[kani::unwind(3)]
#[kani::stub(robust::orient2d, orient2d_recorder)]
fn signed_area_forwards_f32() {
    forwards::<f32>()
}
#[kani::proof]
#[kani::unwind(3)]
#[kani::stub(robust::orient2d, orient2d_recorder)]
fn signed_area_forwards_f64() {
    forwards::<f64>()
}

fn sign(v: f64) -> i32 {
    if v > 0.0 {
        1
    } else if v < 0.0 {
        -1
    } else {
        0
    }
}
/// argument order against an integer reference: positive iff p2 is to the left of p0 -> p1
#[kani::proof]
#[kani::unwind(3)]
#[kani::stub(robust::orient2d, super::common::orient2d_stub)]
fn signed_area_orientation() {
    let i = |v: i8| v as f64;
    let (ax, ay, bx, by, cx, cy): (i8, i8, i8, i8, i8, i8) = (kani::any(), kani::any(), kani::any(), kani::any(), kani::any(), kani::any());
    kani::assume(ax > -8 && ax < 8 && ay > -8 && ay < 8 && bx > -8 && bx < 8 && by > -8 && by < 8 && cx > -8 && cx < 8 && cy > -8 && cy < 8);
    let r = signed_area(Coord { x: i(ax), y: i(ay) }, Coord { x: i(bx), y: i(by) }, Coord { x: i(cx), y: i(cy) });
    let det: i32 = (ax as i32 - cx as i32) * (by as i32 - cy as i32) - (ay as i32 - cy as i32) * (bx as i32 - cx as i32);
    assert!(sign(r) == if det > 0 { 1 } else if det < 0 { -1 } else { 0 }, "signed_area(p0,p1,p2) has the sign of the determinant in that argument order");
    kani::cover!(det == 0 && ax != bx, "collinear");
}
