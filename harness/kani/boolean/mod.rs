//! Kani harnesses injected as `crate::boolean::verif_kani` (cfg(kani) only; see DESIGN.md 2.1).
#![allow(dead_code, unused_imports, clippy::all)]
pub mod common;
pub mod h_nextafter;
pub mod h_cf;
pub mod h_ord;
pub mod h_int;
pub mod h_disp;
pub mod h_div;
pub mod h_pi;
pub mod h_sweep;
pub mod h_sa;
