//! Kani harnesses injected as `crate::boolean::verif_kani` (cfg(kani) only; see DESIGN.md 2.1).
#![allow(dead_code, unused_imports, clippy::all)]
pub mod common;
mod h_nextafter;
mod h_cf;
mod h_ord;
mod h_int;
mod h_disp;
mod h_div;
mod h_pi;
mod h_sweep;
mod h_sa;
