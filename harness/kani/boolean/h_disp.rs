//! L-DISP: the four `BooleanOp` impls, the bounding-box shortcut and the polygon assembly of
//! `boolean_operation`, with its three callees replaced by contract models that record their arguments
//! (assume-guarantee: the callees' real bodies are the subject of their own harnesses).

use super::super::connect_edges::Contour;
use super::super::helper::{BoundingBox, Float};
use super::super::sweep_event::SweepEvent;
use super::super::{BooleanOp, Operation};
use super::common::*;
use geo_types::{Coord, LineString, MultiPolygon, Polygon};
use std::collections::BinaryHeap;
use std::rc::Rc;

const NONE_BOX: (f64, f64, f64, f64) = (f64::INFINITY, f64::INFINITY, f64::NEG_INFINITY, f64::NEG_INFINITY);

struct Rec {
    fq_calls: u8,
    sd_calls: u8,
    ce_calls: u8,
    subj_len: usize,
    clip_len: usize,
    subj_mark: f64,
    clip_mark: f64,
    op: Option<Operation>,
    sd_op: Option<Operation>,
    sb: (f64, f64, f64, f64),
    cb: (f64, f64, f64, f64),
    sd_sb: (f64, f64, f64, f64),
    sd_cb: (f64, f64, f64, f64),
    // forest handed out by the connect_edges model: (marker, hole_of, hole ids (<= 2, -1 = unused))
    nc: usize,
    marker: [f64; 3],
    hole_of: [i32; 3],
    holes: [[i32; 2]; 3],
}
static mut REC: Rec = Rec {
    fq_calls: 0,
    sd_calls: 0,
    ce_calls: 0,
    subj_len: 0,
    clip_len: 0,
    subj_mark: -1.0,
    clip_mark: -1.0,
    op: None,
    sd_op: None,
    sb: NONE_BOX,
    cb: NONE_BOX,
    sd_sb: NONE_BOX,
    sd_cb: NONE_BOX,
    nc: 0,
    marker: [0.0; 3],
    hole_of: [-1; 3],
    holes: [[-1; 2]; 3],
};

fn mark_of<F: Float>(p: &[Polygon<F>]) -> f64 {
    if p.is_empty() || p[0].exterior().0.is_empty() {
        -1.0
    } else {
        p[0].exterior().0[0].x.into()
    }
}
fn box4<F: Float>(b: &BoundingBox<F>) -> (f64, f64, f64, f64) {
    (b.min.x.into(), b.min.y.into(), b.max.x.into(), b.max.y.into())
}
/// contract of fill_queue w.r.t. the boxes (L-FILL): an operand without edges leaves its box at the
/// initial (+inf, -inf); otherwise the box is some valid box (min <= max)
fn model_box<F: Float>(bbox: &mut BoundingBox<F>, operand_len: usize) {
    let untouched: bool = kani::any();
    if operand_len == 0 || untouched {
        return;
    }
    let (x0, y0, x1, y1) = (idx(8), idx(8), idx(8), idx(8));
    kani::assume(x0 <= x1 && y0 <= y1);
    bbox.min = Coord { x: F::from(x0).unwrap(), y: F::from(y0).unwrap() };
    bbox.max = Coord { x: F::from(x1).unwrap(), y: F::from(y1).unwrap() };
}

pub fn fill_queue_model<F: Float>(
    subject: &[Polygon<F>],
    clipping: &[Polygon<F>],
    sbbox: &mut BoundingBox<F>,
    cbbox: &mut BoundingBox<F>,
    operation: Operation,
) -> BinaryHeap<Rc<SweepEvent<F>>> {
    model_box(sbbox, subject.len());
    model_box(cbbox, clipping.len());
    // harness-selected slice of the box space (0: all, 1: disjoint boxes only, 2: touching/overlapping only)
    match unsafe { BOX_MODE } {
        1 => kani::assume(boxes_disjoint(box4(sbbox), box4(cbbox))),
        2 => kani::assume(!boxes_disjoint(box4(sbbox), box4(cbbox))),
        _ => {}
    }
    unsafe {
        REC.fq_calls += 1;
        REC.subj_len = subject.len();
        REC.clip_len = clipping.len();
        REC.subj_mark = mark_of(subject);
        REC.clip_mark = mark_of(clipping);
        REC.op = Some(operation);
        REC.sb = box4(sbbox);
        REC.cb = box4(cbbox);
    }
    BinaryHeap::new()
}
pub fn subdivide_model<F: Float>(
    _event_queue: &mut BinaryHeap<Rc<SweepEvent<F>>>,
    sbbox: &BoundingBox<F>,
    cbbox: &BoundingBox<F>,
    operation: Operation,
) -> Vec<Rc<SweepEvent<F>>> {
    unsafe {
        REC.sd_calls += 1;
        REC.sd_op = Some(operation);
        REC.sd_sb = box4(sbbox);
        REC.sd_cb = box4(cbbox);
    }
    Vec::new()
}
/// forest handed out by the connect_edges model: a concrete template (selected by the harness through
/// FOREST_TEMPLATE) so that all container shapes are concrete; hole ids are any valid indices
static mut FOREST_TEMPLATE: u8 = 0;
static mut BOX_MODE: u8 = 0;
/// contours handed out without points (cheap: no vector clones): only the grouping is observable
static mut FOREST_NO_POINTS: bool = false;
pub fn connect_edges_model<F: Float>(_sorted_events: &[Rc<SweepEvent<F>>]) -> Vec<Contour<F>> {
    // (hole_of, hole ids) per contour
    let t: [(i32, [i32; 2]); 3] = match unsafe { FOREST_TEMPLATE } {
        0 => [(-1, [1, -1]), (0, [-1, -1]), (-1, [-1, -1])],  // exterior with a hole (2 contours)
        1 => [(-1, [-1, -1]), (-1, [-1, -1]), (-1, [-1, -1])], // two exteriors (2 contours)
        2 => [(1, [-1, -1]), (-1, [0, -1]), (-1, [-1, -1])],  // hole listed before its exterior (2 contours)
        3 => [(-1, [1, 2]), (0, [-1, -1]), (0, [-1, -1])],   // one exterior with two holes (3 contours)
        _ => [(-1, [-1, -1]), (-1, [-1, -1]), (-1, [-1, -1])],
    };
    let nc: usize = match unsafe { FOREST_TEMPLATE } {
        0 | 1 | 2 => 2,
        3 => 3,
        _ => 0,
    };
    let mut out: Vec<Contour<F>> = Vec::with_capacity(3);
    macro_rules! add {
        ($i:expr) => {
            if $i < nc {
                let (parent, hs) = t[$i];
                let mut c = Contour::new(if parent < 0 { None } else { Some(parent) }, 0);
                let m = F::from(10 + $i as i32).unwrap();
                if !unsafe { FOREST_NO_POINTS } {
                    c.points.push(Coord { x: m, y: m });
                }
                if hs[0] >= 0 {
                    c.hole_ids.push(hs[0]);
                }
                if hs[1] >= 0 {
                    c.hole_ids.push(hs[1]);
                }
                unsafe {
                    REC.marker[$i] = m.into();
                    REC.hole_of[$i] = parent;
                    REC.holes[$i] = hs;
                }
                out.push(c);
            }
        };
    }
    add!(0);
    add!(1);
    add!(2);
    unsafe {
        REC.ce_calls += 1;
        REC.nc = nc;
    }
    out
}

fn any_op() -> Operation {
    match kani::any::<u8>() & 3 {
        0 => Operation::Intersection,
        1 => Operation::Union,
        2 => Operation::Xor,
        _ => Operation::Difference,
    }
}
fn marked(m: f64) -> Polygon<f64> {
    Polygon::new(LineString(vec![Coord { x: m, y: m }]), vec![])
}
/// multipolygon of k polygons (k in 0..=2) with markers m, m+1
fn multi(k: u8, m: f64) -> MultiPolygon<f64> {
    let mut v = Vec::with_capacity(2);
    if k >= 1 {
        v.push(marked(m));
    }
    if k >= 2 {
        v.push(marked(m + 1.0));
    }
    MultiPolygon(v)
}
fn first_mark(p: &Polygon<f64>) -> f64 {
    p.exterior().0[0].x
}
fn boxes_disjoint(a: (f64, f64, f64, f64), b: (f64, f64, f64, f64)) -> bool {
    // closed boxes; the initial (+inf, -inf) box is empty and disjoint from everything
    let empty = |t: (f64, f64, f64, f64)| t.0 > t.2 || t.1 > t.3;
    if empty(a) || empty(b) {
        return true;
    }
    a.2 < b.0 || b.2 < a.0 || a.3 < b.1 || b.3 < a.1
}

fn check(res: MultiPolygon<f64>, op: Operation, ns: usize, nc: usize, smark: f64, cmark: f64, full: bool) {
    let r = unsafe { &REC };
    assert!(r.fq_calls == 1, "the queue is filled exactly once");
    assert!(r.op == Some(op), "the requested operation is forwarded");
    assert!(r.subj_len == ns && r.clip_len == nc, "all polygons of self are the subject, all polygons of rhs the clipping operand");
    assert!((ns == 0 || r.subj_mark == smark) && (nc == 0 || r.clip_mark == cmark), "self is the subject and rhs the clipping operand (not swapped)");
    if boxes_disjoint(r.sb, r.cb) {
        assert!(r.sd_calls == 0 && r.ce_calls == 0, "disjoint boxes: the sweep is skipped");
        let want = match op {
            Operation::Intersection => 0,
            Operation::Difference => ns,
            _ => ns + nc,
        };
        assert!(res.0.len() == want, "shortcut: empty / subject / subject followed by clipping");
        let mut i = 0;
        while full && i < res.0.len() {
            let m = first_mark(&res.0[i]);
            let expect = if i < ns { smark + i as f64 } else { cmark + (i - ns) as f64 };
            assert!(m == expect && res.0[i].interiors().is_empty(), "shortcut: the input polygons are handed back unchanged and in order");
            i += 1;
        }
    } else {
        assert!(r.sd_calls == 1 && r.ce_calls == 1, "touching or overlapping boxes: the sweep runs (no shortcut)");
        assert!(r.sd_op == Some(op) && r.sd_sb == r.sb && r.sd_cb == r.cb, "the sweep gets the operation and the boxes computed by queue filling");
        if !full {
            std::mem::forget(res);
            return;
        }
        // assembly: one polygon per exterior contour, in order, with exactly the rings named by hole_ids
        let mut k = 0;
        let mut i = 0;
        while i < r.nc {
            if r.hole_of[i] < 0 {
                assert!(k < res.0.len(), "every exterior contour becomes a polygon");
                let p = &res.0[k];
                assert!(first_mark(p) == r.marker[i], "polygons appear in contour order with the contour's points as exterior");
                let nh = (r.holes[i][0] >= 0) as usize + (r.holes[i][1] >= 0) as usize;
                assert!(p.interiors().len() == nh, "a polygon carries exactly the holes listed for its contour");
                let mut h = 0;
                while h < nh {
                    assert!(p.interiors()[h].0[0].x == r.marker[r.holes[i][h] as usize], "interior rings are the listed contours, in order");
                    h += 1;
                }
                k += 1;
            }
            i += 1;
        }
        assert!(k == res.0.len(), "contours that are holes do not become polygons");
    }
    std::mem::forget(res);
}

macro_rules! disp {
    ($name:ident, $mode:expr, $forest:expr, $opsel:expr, |$op:ident| $body:block) => {
        #[kani::proof]
        #[kani::unwind(4)]
        #[kani::stub(super::super::fill_queue::fill_queue, fill_queue_model)]
        #[kani::stub(super::super::subdivide_segments::subdivide, subdivide_model)]
        #[kani::stub(super::super::connect_edges::connect_edges, connect_edges_model)]
        fn $name() {
            unsafe {
                FOREST_TEMPLATE = $forest;
                BOX_MODE = $mode;
            }
            // operation: symbolic (255) or a concrete one where only forwarding is the subject
            let $op = match $opsel {
                0 => Operation::Intersection,
                1 => Operation::Union,
                2 => Operation::Xor,
                3 => Operation::Difference,
                _ => any_op(),
            };
            $body
        }
    };
}
// --- which path is taken, and the shortcut table: all boxes, all operations, Polygon x Polygon
disp!(dispatch_predicate, 0, 4, 255, |op| {
    let (a, b) = (marked(1.0), marked(5.0));
    let r = a.boolean(&b, op);
    check(r, op, 1, 1, 1.0, 5.0, true);
    let rec = unsafe { &REC };
    kani::cover!(boxes_disjoint(rec.sb, rec.cb) && op == Operation::Difference, "shortcut taken");
    kani::cover!(!boxes_disjoint(rec.sb, rec.cb) && (rec.sb.2 == rec.cb.0 || rec.sb.3 == rec.cb.1), "boxes that merely touch take the sweep");
    kani::cover!(!boxes_disjoint(rec.sb, rec.cb) && rec.sb.2 > rec.cb.0 && rec.cb.2 > rec.sb.0, "overlapping boxes");
});
// --- forwarding of (self, rhs) per trait impl and operand size (disjoint boxes; the operation is only forwarded)
disp!(dispatch_forward_poly_multi2, 1, 4, 3, |op| {
    let (a, b) = (marked(1.0), multi(2, 5.0));
    let r = a.boolean(&b, op);
    check(r, op, 1, 2, 1.0, 5.0, true);
});
disp!(dispatch_forward_multi2_multi1, 1, 4, 3, |op| {
    let (a, b) = (multi(2, 1.0), multi(1, 5.0));
    let r = a.boolean(&b, op);
    check(r, op, 2, 1, 1.0, 5.0, true);
});
disp!(dispatch_forward_multi2_poly, 1, 4, 3, |op| {
    let (a, b) = (multi(2, 1.0), marked(5.0));
    let r = a.boolean(&b, op);
    check(r, op, 2, 1, 1.0, 5.0, true);
});
disp!(dispatch_union_multi1_multi1, 1, 4, 1, |op| {
    let (a, b) = (multi(1, 1.0), multi(1, 5.0));
    let r = a.boolean(&b, op);
    check(r, op, 1, 1, 1.0, 5.0, true);
});
// empty operands always take the shortcut (their box stays at the initial (+inf, -inf)): all boxes, all operations
disp!(dispatch_empty_subject, 0, 4, 255, |op| {
    let (a, b) = (multi(0, 1.0), marked(5.0));
    let r = a.boolean(&b, op);
    assert!(unsafe { REC.sd_calls } == 0, "an empty subject never reaches the sweep");
    check(r, op, 0, 1, 1.0, 5.0, true);
});
disp!(dispatch_empty_clipping, 0, 4, 255, |op| {
    let (a, b) = (marked(1.0), multi(0, 5.0));
    let r = a.boolean(&b, op);
    assert!(unsafe { REC.sd_calls } == 0, "an empty clipping operand never reaches the sweep");
    check(r, op, 1, 0, 1.0, 5.0, true);
});
disp!(dispatch_empty_both, 0, 4, 255, |op| {
    let (a, b) = (multi(0, 1.0), multi(0, 5.0));
    let r = a.boolean(&b, op);
    assert!(r.0.is_empty(), "empty op empty is empty");
    check(r, op, 0, 0, 1.0, 5.0, true);
});
// --- the sweep path and the assembly of polygons from the contour forest (touching/overlapping boxes only)
disp!(dispatch_sweep_forest0, 2, 0, 1, |op| {
    let (a, b) = (marked(1.0), marked(5.0));
    let r = a.boolean(&b, op);
    check(r, op, 1, 1, 1.0, 5.0, true);
});
disp!(dispatch_sweep_forest1, 2, 1, 0, |op| {
    let (a, b) = (marked(1.0), marked(5.0));
    let r = a.boolean(&b, op);
    check(r, op, 1, 1, 1.0, 5.0, true);
});
disp!(dispatch_sweep_forest2, 2, 2, 3, |op| {
    let (a, b) = (marked(1.0), marked(5.0));
    let r = a.boolean(&b, op);
    check(r, op, 1, 1, 1.0, 5.0, true);
});
disp!(dispatch_sweep_forest3, 2, 3, 2, |op| {
    let (a, b) = (marked(1.0), marked(5.0));
    let r = a.boolean(&b, op);
    check(r, op, 1, 1, 1.0, 5.0, true);
});
// --- grouping only: contours without points; number of polygons = number of exterior contours, in
// order, each with as many interior rings as its contour lists hole ids
fn check_grouping(res: &MultiPolygon<f64>) {
    let r = unsafe { &REC };
    assert!(r.sd_calls == 1 && r.ce_calls == 1, "the sweep path was taken");
    let mut k = 0;
    let mut i = 0;
    while i < r.nc {
        if r.hole_of[i] < 0 {
            assert!(k < res.0.len(), "every exterior contour becomes a polygon");
            let nh = (r.holes[i][0] >= 0) as usize + (r.holes[i][1] >= 0) as usize;
            assert!(res.0[k].interiors().len() == nh, "a polygon carries exactly as many holes as its contour lists");
            k += 1;
        }
        i += 1;
    }
    assert!(k == res.0.len(), "contours that are holes do not become polygons");
}
macro_rules! disp_grouping {
    ($name:ident, $forest:expr) => {
        disp!($name, 2, $forest, 1, |op| {
            unsafe {
                FOREST_NO_POINTS = true;
            }
            let (a, b) = (marked(1.0), marked(5.0));
            let r = a.boolean(&b, op);
            check_grouping(&r);
            kani::cover!(r.0.len() >= 1, "at least one polygon assembled");
            std::mem::forget(r);
        });
    };
}
disp_grouping!(dispatch_grouping_forest0, 0);
disp_grouping!(dispatch_grouping_forest1, 1);
disp_grouping!(dispatch_grouping_forest2, 2);
disp_grouping!(dispatch_grouping_forest3, 3);

/// the named convenience methods are the four operations
disp!(dispatch_named_methods, 1, 4, 255, |op| {
    let (a, b) = (marked(1.0), marked(5.0));
    let r = match op {
        Operation::Intersection => a.intersection(&b),
        Operation::Union => a.union(&b),
        Operation::Xor => a.xor(&b),
        Operation::Difference => a.difference(&b),
    };
    check(r, op, 1, 1, 1.0, 5.0, true);
});
