//! C10: helper::NextAfter for f32 and f64, all finite inputs (full range, bit-pattern reference).
use super::super::helper::NextAfter;

macro_rules! nextafter_harness {
    ($name:ident, $f:ty, $u:ty) => {
        #[kani::proof]
        fn $name() {
            let x: $f = kani::any();
            kani::assume(x.is_finite());
            let up = x.nextafter(true);
            let dn = x.nextafter(false);
            assert!(up > x, "nextafter(true) is strictly greater");
            assert!(dn < x, "nextafter(false) is strictly smaller");
            // reference: neighbour in the ordered bit-pattern line
            let b = x.to_bits();
            let one: $u = 1;
            let sign: $u = one << (<$u>::BITS - 1);
            let ref_up: $f = if x == 0.0 {
                <$f>::from_bits(1)
            } else if x > 0.0 {
                <$f>::from_bits(b + 1)
            } else {
                <$f>::from_bits(b - 1)
            };
            let ref_dn: $f = if x == 0.0 {
                <$f>::from_bits(sign | 1)
            } else if x > 0.0 {
                <$f>::from_bits(b - 1)
            } else {
                <$f>::from_bits(b + 1)
            };
            // compare as values (the sign of a zero result is not part of the contract)
            assert!(up == ref_up, "nextafter(true) is the adjacent representable value");
            assert!(dn == ref_dn, "nextafter(false) is the adjacent representable value");
            kani::cover!(x == 0.0 && b != 0, "negative zero");
            kani::cover!(x == <$f>::MAX, "largest finite: steps to infinity");
            kani::cover!(x > 0.0 && x < <$f>::MIN_POSITIVE, "subnormal");
            kani::cover!(x < 0.0 && dn.is_infinite(), "most negative finite");
        }
    };
}
nextafter_harness!(nextafter_f64, f64, u64);
nextafter_harness!(nextafter_f32, f32, u32);
