//! L-CF: `compute_fields` as an inductive step over the complete flag space (D-FLAGS).
//!
//! World model.  (S, C) = "inside subject / inside clipping" in the region just *below* the new
//! edge (for a vertical edge "below" is its right-hand side, "above" its left-hand side: the sweep
//! orders a vertical segment as if it were tilted clockwise).  An edge of operand X flips X's bit
//! between below and above; a coincident pair flips both.
//!
//! Inv(p), what the recorded flags of an edge p in the sweep line mean to the next edge above it:
//!   non-vertical p : p.in_out       <=> p's operand is inside just below p
//!                    p.other_in_out <=> the other operand is outside just above p
//!   vertical p     : p.in_out       <=> p's operand is inside to the right of p
//!                    p.other_in_out <=> the other operand is outside to the right of p
//! Selection: an edge is a boundary of `op` iff op(below) != op(above); its transition is OutIn iff
//! op(above).  Geometry is concrete (only verticality enters compute_fields).

use super::super::compute_fields::compute_fields;
use super::super::sweep_event::{EdgeType, ResultTransition, SweepEvent};
use super::super::Operation;
use super::common::seg_c;
use geo_types::Coord;
use std::rc::Rc;

type Ev = Rc<SweepEvent<f64>>;

fn any_op() -> Operation {
    match kani::any::<u8>() & 3 {
        0 => Operation::Intersection,
        1 => Operation::Union,
        2 => Operation::Xor,
        _ => Operation::Difference,
    }
}
/// the Boolean function an operation names
fn opf(op: Operation, s: bool, c: bool) -> bool {
    match op {
        Operation::Intersection => s && c,
        Operation::Union => s || c,
        Operation::Xor => s != c,
        Operation::Difference => s && !c,
    }
}
fn c(x: f64, y: f64) -> Coord<f64> {
    Coord { x, y }
}
fn pick(subject: bool, s: bool, cl: bool) -> bool {
    if subject {
        s
    } else {
        cl
    }
}
fn any_transition() -> ResultTransition {
    match kani::any::<u8>() % 3 {
        0 => ResultTransition::None,
        1 => ResultTransition::InOut,
        _ => ResultTransition::OutIn,
    }
}
fn expected_transition(op: Operation, below: (bool, bool), above: (bool, bool)) -> ResultTransition {
    let (b, a) = (opf(op, below.0, below.1), opf(op, above.0, above.1));
    if a == b {
        ResultTransition::None
    } else if a {
        ResultTransition::OutIn
    } else {
        ResultTransition::InOut
    }
}
type Ptr = *const SweepEvent<f64>;
/// identity of the recorded lower result edge (null = none)
fn pir_of(e: &Ev) -> Ptr {
    match e.get_prev_in_result() {
        None => std::ptr::null(),
        Some(x) => {
            let p = Rc::as_ptr(&x);
            std::mem::forget(x);
            p
        }
    }
}

/// A predecessor edge of the given kind whose flags satisfy Inv w.r.t. the region (s_r, c_r) above it
/// (to its right if vertical).  `far` is an older result edge it may point to.
fn make_prev(vertical: bool, subject: bool, s_r: bool, c_r: bool, far: &Ev) -> (Ev, Ev, Ptr) {
    let (pl, pr) = if vertical { (c(1., 0.), c(1., 3.)) } else { (c(0., 0.), c(4., 0.)) };
    let sg = seg_c(pl, pr, subject, 1);
    let p_r = pick(subject, s_r, c_r);
    let o_r = pick(!subject, s_r, c_r);
    if vertical {
        sg.l.set_in_out(p_r, !o_r);
    } else {
        sg.l.set_in_out(!p_r, !o_r);
    }
    // membership in the result and the older link are arbitrary: compute_fields only forwards them
    sg.l.set_result_transition(any_transition());
    let has_far: bool = kani::any();
    if has_far {
        sg.l.set_prev_in_result(far);
    }
    let pir = if has_far { Rc::as_ptr(far) } else { std::ptr::null() };
    (sg.l, sg.r, pir)
}

fn expected_pir(prev: &Ev, prev_vertical: bool, prev_pir: Ptr) -> Ptr {
    if prev.is_in_result() && !prev_vertical {
        Rc::as_ptr(prev)
    } else {
        prev_pir
    }
}

/// Base case: nothing below.
#[kani::proof]
#[kani::unwind(3)]
fn cf_base() {
    let op = any_op();
    let e_subject: bool = kani::any();
    let e_vertical: bool = kani::any();
    let e = seg_c(c(1., 1.), if e_vertical { c(1., 3.) } else { c(3., 1.) }, e_subject, 2);
    // stale state of an earlier computation must be overwritten
    let far = seg_c(c(-2., -2.), c(5., -2.), true, 9);
    if kani::any() {
        e.l.set_prev_in_result(&far.l);
    }
    e.l.set_in_out(kani::any(), kani::any());
    e.l.set_result_transition(any_transition());

    compute_fields(&e.l, None, op);

    assert!(!e.l.is_in_out(), "no predecessor: own operand is outside below");
    assert!(e.l.is_other_in_out(), "no predecessor: other operand is outside");
    assert!(pir_of(&e.l).is_null(), "no predecessor: no lower result edge");
    let below = (false, false);
    let above = (e_subject, !e_subject);
    assert!(
        e.l.get_result_transition() == expected_transition(op, below, above),
        "base case: membership/transition equals op(below) vs op(above)"
    );
    kani::cover!(e.l.is_in_result(), "base edge in result");
    kani::cover!(!e.l.is_in_result(), "base edge not in result");
    std::mem::forget((e, far));
}

/// Inductive step for a Normal edge over every kind of predecessor.
fn cf_step_body(prev_vertical: bool, same_operand: bool) {
    let op = any_op();
    let (s_r, c_r): (bool, bool) = (kani::any(), kani::any());
    let p_subject: bool = kani::any();
    let e_subject = if same_operand { p_subject } else { !p_subject };
    let far = seg_c(c(-2., -2.), c(5., -2.), kani::any(), 9);
    let (prev, prev_r, prev_pir) = make_prev(prev_vertical, p_subject, s_r, c_r, &far.l);
    // predecessor is a plain edge or the (non-contributing) upper twin of a coincident pair
    let prev_nc: bool = kani::any();
    if prev_nc {
        prev.set_edge_type(EdgeType::NonContributing);
        prev.set_result_transition(ResultTransition::None);
    }
    let e_vertical: bool = kani::any();
    kani::assume(!(prev_vertical && e_vertical)); // overlapping verticals are the twin case
    let e = seg_c(c(1., 1.), if e_vertical { c(1., 3.) } else { c(3., 1.) }, e_subject, 2);
    e.l.set_in_out(kani::any(), kani::any());
    e.l.set_result_transition(any_transition());
    if kani::any() {
        e.l.set_prev_in_result(&prev); // stale link of an earlier computation
    }

    compute_fields(&e.l, Some(&prev), op);

    let e_r = pick(e_subject, s_r, c_r);
    let eo_r = pick(!e_subject, s_r, c_r);
    let in_out_ok = e.l.is_in_out() == e_r;
    if same_operand && prev_vertical {
        assert!(in_out_ok, "[KF1] in_out after a vertical predecessor of the same operand: own operand inside below");
    } else {
        assert!(in_out_ok, "in_out: own operand inside just below the edge");
    }
    assert!(e.l.is_other_in_out() == !eo_r, "other_in_out: other operand outside at the edge");
    let below = (s_r, c_r);
    let above = (s_r != e_subject, c_r == e_subject);
    let tr_ok = e.l.get_result_transition() == expected_transition(op, below, above);
    if same_operand && prev_vertical {
        assert!(tr_ok, "[KF1] result membership/transition after a vertical predecessor of the same operand");
    } else {
        assert!(tr_ok, "result membership iff op(below)!=op(above), transition OutIn iff op(above)");
    }
    assert!(
        pir_of(&e.l) == expected_pir(&prev, prev_vertical, prev_pir),
        "prev_in_result: predecessor if it is a non-vertical result edge, else the predecessor's own"
    );
    kani::cover!(e.l.get_result_transition() == ResultTransition::OutIn, "OutIn reached");
    kani::cover!(e.l.get_result_transition() == ResultTransition::InOut, "InOut reached");
    kani::cover!(e.l.get_result_transition() == ResultTransition::None, "not in result reached");
    kani::cover!(prev_nc, "predecessor is a non-contributing upper twin");
    kani::cover!(op == Operation::Difference && !e_subject, "difference, clipping edge");
    std::mem::forget((e, prev, prev_r, far));
}

#[kani::proof]
#[kani::unwind(3)]
fn cf_step_same_nonvert() {
    cf_step_body(false, true)
}
#[kani::proof]
#[kani::unwind(3)]
fn cf_step_diff_nonvert() {
    cf_step_body(false, false)
}
#[kani::proof]
#[kani::unwind(3)]
fn cf_step_same_vert() {
    cf_step_body(true, true)
}
#[kani::proof]
#[kani::unwind(3)]
fn cf_step_diff_vert() {
    cf_step_body(true, false)
}

/// The coincident-pair sequence of `subdivide`: lower twin s, upper twin c, typing by
/// `possible_intersection` (documented rule, applied here), recomputation of both.  The hand-over
/// to the next edge above is the assertion Inv(c) here plus `cf_step_*` with a non-contributing
/// predecessor.  pp_kind: predecessor of the pair: 0 none, 1 non-vertical, 2 vertical.
fn cf_twins_body(pair_vertical: bool, pp_kind: u8, upper_is_older: bool) {
    let op = any_op();
    let (s0, c0): (bool, bool) = (kani::any(), kani::any()); // region below the pair (right of it if vertical)
    let s_subject: bool = kani::any();
    let far = seg_c(c(-2., -2.), c(5., -2.), kani::any(), 9);
    let pp = if pp_kind == 0 {
        None
    } else {
        Some(make_prev(pp_kind == 2, kani::any(), s0, c0, &far.l))
    };
    let pp_ref = pp.as_ref().map(|t| &t.0);
    let pp_pir: Ptr = match &pp {
        None => std::ptr::null(),
        Some((p, _, pir)) => expected_pir(p, pp_kind == 2, *pir),
    };
    let (s0, c0) = if pp_kind == 0 { (false, false) } else { (s0, c0) };

    let (pl, pr) = if pair_vertical { (c(1., 1.), c(1., 3.)) } else { (c(1., 1.), c(3., 1.)) };
    let s = seg_c(pl, pr, s_subject, 2);
    let cc = seg_c(pl, pr, !s_subject, 3);

    // 1.+2. state after both twins were inserted as plain edges: their in_out flags are what
    // `cf_step_*` proves compute_fields produces (Inv); everything else is arbitrary stale state that
    // the recomputation must overwrite.  `upper_is_older` selects the real first computation instead.
    let p0_ = pick(s_subject, s0, c0);
    let o0_ = pick(!s_subject, s0, c0);
    if upper_is_older {
        compute_fields(&s.l, pp_ref, op);
        compute_fields(&cc.l, pp_ref, op);
    } else {
        s.l.set_in_out(p0_, kani::any());
        cc.l.set_in_out(o0_, kani::any());
        s.l.set_result_transition(any_transition());
        cc.l.set_result_transition(any_transition());
    }
    // 3. typing rule of possible_intersection (common left endpoint)
    cc.l.set_edge_type(EdgeType::NonContributing);
    if s.l.is_in_out() == cc.l.is_in_out() {
        s.l.set_edge_type(EdgeType::SameTransition)
    } else {
        s.l.set_edge_type(EdgeType::DifferentTransition)
    }
    // 4. recomputation, bottom to top
    compute_fields(&s.l, pp_ref, op);
    compute_fields(&cc.l, Some(&s.l), op);

    let p0 = pick(s_subject, s0, c0);
    let o0 = pick(!s_subject, s0, c0);
    assert!(s.l.is_in_out() == p0, "lower twin in_out: its operand inside below the pair");
    assert!(cc.l.is_in_out() == o0, "upper twin in_out: its operand inside below the pair");
    // Inv(c) for the next edge above: the lower twin's operand as seen from above the pair
    // (non-vertical: outside above <=> inside below; vertical: the region to the right is `below`)
    if pair_vertical {
        assert!(cc.l.is_other_in_out() == !p0, "upper twin other_in_out (vertical pair): other operand outside to the right");
    } else {
        assert!(cc.l.is_other_in_out() == p0, "upper twin other_in_out: other operand outside above the pair");
    }
    assert!(
        (s.l.get_edge_type() == EdgeType::SameTransition) == (p0 == o0),
        "pair typed SameTransition iff both operands change the same way"
    );
    let below = (s0, c0);
    let above = (!s0, !c0);
    let expect = expected_transition(op, below, above);
    assert!(!cc.l.is_in_result(), "upper twin never carries the boundary");
    assert!(
        s.l.is_in_result() == (expect != ResultTransition::None),
        "exactly the lower twin carries the boundary iff op(below)!=op(above)"
    );
    assert!(
        s.l.get_result_transition() == expect || !s.l.is_in_result() || expect == ResultTransition::None,
        "[KF2] shared edge: transition is the direction of the combined change"
    );
    assert!(pir_of(&s.l) == pp_pir, "lower twin prev_in_result");
    let pir_after_pair = if s.l.is_in_result() && !pair_vertical { Rc::as_ptr(&s.l) } else { pp_pir };
    assert!(pir_of(&cc.l) == pir_after_pair, "upper twin prev_in_result");

    kani::cover!(s.l.get_edge_type() == EdgeType::SameTransition && s.l.is_in_result(), "same transition kept");
    kani::cover!(!s.l.is_in_result(), "pair dropped");
    kani::cover!(expect == ResultTransition::OutIn, "pair OutIn");
    // without a predecessor both operands are outside below: only equal transitions exist there
    kani::cover!(pp_kind == 0 || (s.l.get_edge_type() == EdgeType::DifferentTransition && s.l.is_in_result()), "different transition kept (or: no predecessor)");
    kani::cover!(pp_kind == 0 || expect == ResultTransition::InOut, "pair InOut (or: no predecessor)");
    std::mem::forget((s, cc, pp, far));
}

macro_rules! twins {
    ($name:ident, $v:expr, $k:expr, $o:expr) => {
        #[kani::proof]
        #[kani::unwind(3)]
        fn $name() {
            cf_twins_body($v, $k, $o)
        }
    };
}
twins!(cf_twins_nonvert_pp0, false, 0, false);
twins!(cf_twins_nonvert_pp1, false, 1, false);
twins!(cf_twins_nonvert_pp2, false, 2, false);
twins!(cf_twins_vert_pp0, true, 0, false);
twins!(cf_twins_vert_pp1, true, 1, false);
twins!(cf_twins_nonvert_pp1_older, false, 1, true);
twins!(cf_twins_vert_pp1_older, true, 1, true);

/// C05: the four selection tables are mutually consistent on one and the same flag state
/// (no oracle: the real function is run once per operation and the outputs are related).
/// typed: 0 plain edge, 1 SameTransition, 2 DifferentTransition (lower twin being recomputed).
fn cf_relational_body(typed: u8) -> Rel {
    let (s_r, c_r): (bool, bool) = (kani::any(), kani::any());
    let p_subject: bool = kani::any();
    let e_subject: bool = kani::any();
    let prev_vertical: bool = kani::any();
    let far = seg_c(c(-2., -2.), c(5., -2.), true, 9);
    // compute_fields never writes to the predecessor: one predecessor serves all four runs
    let (prev, prev_r, _pir) = make_prev(prev_vertical, p_subject, s_r, c_r, &far.l);
    let run = |op: Operation| -> (bool, bool) {
        let e = seg_c(c(1., 1.), c(3., 1.), e_subject, 2);
        e.l.set_edge_type(match typed {
            0 => EdgeType::Normal,
            1 => EdgeType::SameTransition,
            _ => EdgeType::DifferentTransition,
        });
        compute_fields(&e.l, Some(&prev), op);
        let r = (e.l.is_in_result(), e.l.get_result_transition() == ResultTransition::OutIn);
        std::mem::forget(e);
        r
    };
    let (in_it, oi_it) = run(Operation::Intersection);
    let (in_un, oi_un) = run(Operation::Union);
    let (in_xo, oi_xo) = run(Operation::Xor);
    let (in_di, oi_di) = run(Operation::Difference);
    std::mem::forget((prev, prev_r, far));
    Rel { in_it, oi_it, in_un, oi_un, in_xo, oi_xo, in_di, oi_di, e_subject, same_vert: prev_vertical && p_subject == e_subject }
}
struct Rel {
    in_it: bool,
    oi_it: bool,
    in_un: bool,
    oi_un: bool,
    in_xo: bool,
    oi_xo: bool,
    in_di: bool,
    oi_di: bool,
    e_subject: bool,
    same_vert: bool,
}
#[kani::proof]
#[kani::unwind(3)]
fn cf_relational_plain() {
    let r = cf_relational_body(0);
    assert!(r.in_xo, "xor keeps every plain edge");
    assert!(r.in_it != r.in_un, "a plain edge bounds exactly one of intersection and union");
    assert!(r.in_di == if r.e_subject { r.in_un } else { r.in_it }, "difference = union on subject edges, intersection on clipping edges");
    // xor follows the edge's own direction where the other operand is outside (union edge) and
    // the inverted direction where it is inside (intersection edge)
    if r.in_un {
        assert!(r.oi_xo == r.oi_un, "xor edge outside the other operand has the union edge's direction");
    } else {
        assert!(r.oi_xo != r.oi_it, "xor edge inside the other operand has the inverted direction");
    }
    // the difference edge has the direction of the union edge on subject edges and the opposite
    // direction of the intersection edge on clipping edges (B's boundary is traversed inverted)
    if r.in_di {
        if r.e_subject {
            assert!(r.oi_di == r.oi_un, "A-B follows A's boundary direction");
        } else {
            assert!(r.oi_di != r.oi_it, "A-B follows B's boundary inverted");
        }
    }
    kani::cover!(r.in_it, "plain edge of the intersection");
    kani::cover!(r.in_di && !r.e_subject, "clipping edge of the difference");
    kani::cover!(r.same_vert, "vertical predecessor of the same operand");
}
#[kani::proof]
#[kani::unwind(3)]
fn cf_relational_same() {
    let r = cf_relational_body(1);
    assert!(r.in_it && r.in_un && !r.in_xo && !r.in_di, "equal transitions: intersection and union keep the shared edge, xor and difference drop it");
    assert!(r.oi_it == r.oi_un, "[KF2] shared edge has one direction for intersection and union");
    kani::cover!(r.oi_it, "shared edge entered from outside");
    kani::cover!(!r.oi_it, "shared edge left towards outside");
}
#[kani::proof]
#[kani::unwind(3)]
fn cf_relational_diff() {
    let r = cf_relational_body(2);
    assert!(!r.in_it && !r.in_un && !r.in_xo && r.in_di, "opposite transitions: only the difference keeps the shared edge");
    kani::cover!(r.oi_di, "difference shared edge OutIn");
    kani::cover!(!r.oi_di, "difference shared edge InOut");
}

