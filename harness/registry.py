"""Harness registry: which Kani harness decides what, for which property and tier.

H[name] = dict(
  file   = harness module file (relative to harness/kani) that contains the #[kani::proof] fn,
  props  = {property id: tier}   tier "quick" = runs in both tiers, "thorough" = thorough only,
  lemma, claim, domain, inst     = free text for the evidence,
  cap_s, mem_gb, est_s           = wall cap, address-space cap, expected wall (scheduling),
  mode   = "assert" (default) | "recursion" (verdict = recursion unwinding assertions),
  native_models = [(src file, fn, model path)]  callee models that a native replay must link too,
)
"""

H = {}

# source file -> harness module file (a child module sees the private items of its parent)
INJECT = {
    "src/boolean/mod.rs": "boolean/mod.rs",
    "src/boolean/fill_queue.rs": "fq/mod.rs",
    "src/boolean/connect_edges.rs": "ce/mod.rs",
    "src/boolean/compute_fields.rs": "cf/mod.rs",
    "src/boolean/segment_intersection.rs": "si/mod.rs",
    "src/splay/tree.rs": "splay/mod.rs",
}
MODPATH = {
    "boolean": "boolean::verif_kani",
    "fq": "boolean::fill_queue::verif_kani",
    "ce": "boolean::connect_edges::verif_kani",
    "cf": "boolean::compute_fields::verif_kani",
    "si": "boolean::segment_intersection::verif_kani",
    "splay": "splay::tree::verif_kani",
}


def qualified(name):
    d, f = H[name]["file"].split("/")
    m = MODPATH[d]
    if f != "mod.rs":
        m += "::" + f[:-3]
    return m + "::" + name


def reg(name, **kw):
    kw.setdefault("cap_s", 600)
    kw.setdefault("mem_gb", 12)
    kw.setdefault("est_s", 30)
    H[name] = kw


ORIENT_STUB = "robust::orient2d replaced by the exact determinant on lattice inputs (trusted, DESIGN 2.3)"

# --------------------------------------------------------------------------------------- C10 helper
for f in ("f64", "f32"):
    reg(f"nextafter_{f}", file="boolean/h_nextafter.rs", props={"C10": "quick"}, lemma="L-NEXT",
        claim=f"helper::NextAfter for {f}: strictly monotone one-ulp step in both directions, equal to the adjacent bit pattern",
        domain=f"all finite {f} values (full range)", inst=f, est_s=5, cap_s=300)


# --------------------------------------------------------------------------------------- L-CF (D-FLAGS)
FLAGS = "complete flag space: operation x operand tags x (S,C) world x predecessor kind/verticality x stale state; geometry concrete"
CF = dict(file="boolean/h_cf.rs", lemma="L-CF", domain=FLAGS, inst="f64", est_s=60, cap_s=1200, mem_gb=20, unwind=3)
reg("cf_base", props={"C14": "quick", "C01": "quick"}, claim="compute_fields without predecessor: flags (false,true), no lower result edge, selection = op(below) vs op(above)", **CF)
for nm, txt in (("same_nonvert", "same operand, non-vertical predecessor"), ("diff_nonvert", "other operand, non-vertical predecessor"),
                ("same_vert", "same operand, vertical predecessor (KF1 region)"), ("diff_vert", "other operand, vertical predecessor")):
    reg(f"cf_step_{nm}", props={"C14": "quick", "C01": "quick", "C02": "quick"},
        claim=f"compute_fields inductive step, {txt}: Inv(prev) => Inv(event), selection and transition equal the Boolean function, prev_in_result rule", **CF)
for nm, tier in (("nonvert_pp0", "quick"), ("nonvert_pp1", "quick"), ("nonvert_pp2", "quick"), ("vert_pp0", "quick"), ("vert_pp1", "quick"),
                 ("nonvert_pp1_older", "thorough"), ("vert_pp1_older", "thorough")):
    reg(f"cf_twins_{nm}", props={"C14": tier, "C01": tier, "C02": tier},
        claim=f"coincident pair ({nm}: pair verticality, predecessor kind 0 none/1 non-vertical/2 vertical, insertion order): lower/upper twin flags, "
              "typing, exactly one twin in result with the direction of the combined change, Inv(upper twin) for the successor", **CF)
for _t in ("plain", "same", "diff"):
    reg(f"cf_relational_{_t}", props={"C05": "quick"}, claim=f"({_t} edge) ""the four selection tables related on one flag state: xor = union (+) intersection, difference = union on subject / intersection on clipping edges, shared-edge subsets, directions", **dict(CF, est_s=200))
reg("cf_selfop_symmetry", props={"C06": "quick"}, claim="pair level: A op A keeps (intersection/union) or drops (difference/xor) every shared edge; commutative operations are symmetric in the operand tags", **CF)

# --------------------------------------------------------------------------------------- C18 L-DEPTH
DEPTH = dict(file="splay/h_depth.rs", lemma="L-DEPTH", mode="recursion", unwind=8, inst="SplayTree<u8,u8,fn>", est_s=20, cap_s=600,
             domain="chains of 12 nodes (left and right), unwind bound 8: recursion deeper than 8 on a 12-chain is reported by CBMC's recursion unwinding assertion")
for nm, txt in (("drop_left_chain", "Drop of a left chain"), ("drop_right_chain", "Drop of a right chain"), ("clear_left_chain", "clear() of a left chain"), ("clear_right_chain", "clear() of a right chain"),
                ("into_iter_partial_left", "dropping a partly consumed IntoIter (left chain, one next_back)"),
                ("into_iter_partial_right", "dropping a partly consumed IntoIter (right chain, one next)"),
                ("into_iter_unused", "dropping an unused IntoIter"),
                ("remove_root_over_right_chain", "remove of a root whose left subtree is a 12-node right chain"), ("set_drop", "SplaySet built by monotone insertion, dropped (what subdivide's early break does)"),
                ("get_far_end_left", "get of the deepest key, left chain"), ("get_far_end_right", "get of the deepest key, right chain"),
                ("next_prev", "next/prev on a chain"), ("min_max", "min/max on a chain"), ("insert_far_end", "insert at the far end of a chain"),
                ("remove_max_right_chain", "remove max of a right chain"), ("remove_min_left_chain", "remove min of a left chain"),
                ("remove_root_left_chain", "remove root of a left chain"), ("remove_root_right_chain", "remove root of a right chain")):
    reg(f"depth_{nm}", props={"C18": "quick"}, claim=f"{txt}: no recursion that follows the chain (stack use independent of the number of nodes)", **DEPTH)
# natively the same situation (removed root whose left subtree has a long right spine) is reached through the
# public API by removing the maximum of a tree built by descending insertion
H["depth_remove_root_over_right_chain"]["probe"] = "remove_max_right_chain"
for nm in ("drop_left_chain", "drop_right_chain", "clear_left_chain", "clear_right_chain", "into_iter_partial_left", "into_iter_partial_right", "into_iter_unused"):
    reg(f"depth_{nm}_full", props={"C18": "quick"}, file="splay/h_depth.rs", lemma="L-DEPTH", unwind=30, inst="SplayTree<u8,u8,fn>", est_s=30, cap_s=600,
        domain="same 12-node chain under unwind bound 30 (covers every loop): the whole teardown passes all checks, so nothing of the bound-8 run was cut off unseen",
        claim=f"{nm}: complete pass (memory safety, no leak of control past the teardown) under a covering bound")

# --------------------------------------------------------------------------------------- C17 L-SPLAY
SEQ = dict(file="splay/h_seq.rs", lemma="L-SPLAY", unwind=5, inst="SplayTree<u8,u8,fn>", mem_gb=16,
           domain="all keys (< 4) and values (u8) symbolic: every key order, duplicate and absent key, hence every tree shape the sequence can reach")
QTXT = dict(get="get/contains", next="next (successor)", prev="prev (predecessor)", minmax="min/max/len/is_empty", shape="BST shape, node count, len",
            refstab="reference stability of find_key/get results across further lookups", iter="consuming iteration in any mix of directions + size_hint")
def _seq(name, tier, est):
    ops, q = name.split("_")[1], name.split("_")[2]
    reg(name, props={"C17": tier}, est_s=est, cap_s=2400 if tier == "thorough" else 900,
        claim=f"after the update sequence [{' '.join({'i':'insert','r':'remove'}[c] for c in ops)}] with arbitrary keys: {QTXT[q]} agree with the sorted-array reference", **SEQ)
for q in ("get", "next", "prev", "minmax", "shape", "refstab", "iter"):
    _seq(f"sp_ii_{q}", "quick", 120)
_seq("sp_ir_get", "quick", 100); _seq("sp_ir_shape", "quick", 100)
for q in ("get", "next", "prev", "minmax", "shape", "refstab", "iter"):
    _seq(f"sp_iii_{q}", "thorough", 900)
for nm in ("sp_iir_get", "sp_iir_next", "sp_iir_shape", "sp_iri_shape", "sp_iri_get"):
    _seq(nm, "thorough", 700)
for nm in ("sp_iiri_shape", "sp_iiir_shape", "sp_iiir_get", "sp_iiii_shape", "sp_iiii_refstab"):
    _seq(nm, "thorough", 2000)

# --------------------------------------------------------------------------------------- tables
PROP_BOUNDS = {}
PROP_OUTSIDE = {}
PROP_ASSUMPTIONS = {}

PROPS = {}
for name, h in H.items():
    for pid, t in h["props"].items():
        PROPS.setdefault(pid, {"quick": [], "thorough": []})
        if t == "quick":
            PROPS[pid]["quick"].append(name)
        PROPS[pid]["thorough"].append(name)


def harnesses_for(prop, tier, seed=0):
    return list(PROPS.get(prop, {}).get(tier, []))
