"""Harness registry: which Kani harness decides what, for which property and tier.

H[name] = dict(
  file   = harness module file (relative to harness/kani) that contains the #[kani::proof] fn,
  props  = {property id: tier}   tier "quick" = runs in both tiers, "thorough" = thorough only,
  lemma, claim, domain, inst     = free text for the evidence,
  cap_s, mem_gb, est_s           = wall cap, address-space cap, expected wall (scheduling),
  mode   = "assert" (default) | "recursion" (verdict = recursion unwinding assertions),
  native_models = [(src file, fn, model path)]  callee models that a native replay must link too,
)
"""

H = {}

# source file -> harness module file (a child module sees the private items of its parent)
INJECT = {
    "src/boolean/mod.rs": "boolean/mod.rs",
    "src/boolean/fill_queue.rs": "fq/mod.rs",
    "src/boolean/connect_edges.rs": "ce/mod.rs",
    "src/boolean/compute_fields.rs": "cf/mod.rs",
    "src/boolean/segment_intersection.rs": "si/mod.rs",
    "src/splay/tree.rs": "splay/mod.rs",
}
MODPATH = {
    "boolean": "boolean::verif_kani",
    "fq": "boolean::fill_queue::verif_kani",
    "ce": "boolean::connect_edges::verif_kani",
    "cf": "boolean::compute_fields::verif_kani",
    "si": "boolean::segment_intersection::verif_kani",
    "splay": "splay::tree::verif_kani",
}


def qualified(name):
    d, f = H[name]["file"].split("/")
    m = MODPATH[d]
    if f != "mod.rs":
        m += "::" + f[:-3]
    return m + "::" + name


def reg(name, **kw):
    kw.setdefault("cap_s", 600)
    kw.setdefault("mem_gb", 12)
    kw.setdefault("est_s", 30)
    H[name] = kw


ORIENT_STUB = "robust::orient2d replaced by the exact determinant on lattice inputs (trusted, DESIGN 2.3)"

# --------------------------------------------------------------------------------------- C10 helper
for f in ("f64", "f32"):
    reg(f"nextafter_{f}", file="boolean/h_nextafter.rs", props={"C10": "quick"}, lemma="L-NEXT",
        claim=f"helper::NextAfter for {f}: strictly monotone one-ulp step in both directions, equal to the adjacent bit pattern",
        domain=f"all finite {f} values (full range)", inst=f, est_s=5, cap_s=300)


for f in ("f32", "f64"):
    reg(f"signed_area_forwards_{f}", file="boolean/h_sa.rs", props={"C10": "quick"}, lemma="L-SA", inst=f, unwind=3, est_s=20, cap_s=900, mem_gb=12,
        domain=f"three points with arbitrary finite {f} coordinates (full range); orient2d replaced by a recorder answering with an arbitrary value",
        claim=f"signed_area::<{f}> evaluates the robust predicate exactly once, on the losslessly widened coordinates of (p0,p1,p2) in that order, and returns its value unchanged")
reg("signed_area_orientation", file="boolean/h_sa.rs", props={"C10": "quick", "C15": "thorough"}, lemma="L-SA", inst="f64", unwind=3, est_s=120, cap_s=1500, mem_gb=12,
    domain="three points with integer coordinates in -7..7; orient2d replaced by the plain determinant (exact here)",
    claim="signed_area(p0,p1,p2) has the sign of the determinant of the points in that argument order")

# --------------------------------------------------------------------------------------- L-CF (D-FLAGS)
FLAGS = "complete flag space: operation x operand tags x (S,C) world x predecessor kind/verticality x stale state; geometry concrete"
CF = dict(file="boolean/h_cf.rs", lemma="L-CF", domain=FLAGS, inst="f64", est_s=60, cap_s=1200, mem_gb=20, unwind=3)
reg("cf_base", props={"C14": "quick", "C01": "quick"}, claim="compute_fields without predecessor: flags (false,true), no lower result edge, selection = op(below) vs op(above)", **CF)
for nm, txt in (("same_nonvert", "same operand, non-vertical predecessor"), ("diff_nonvert", "other operand, non-vertical predecessor"),
                ("same_vert", "same operand, vertical predecessor (KF1 region)"), ("diff_vert", "other operand, vertical predecessor")):
    reg(f"cf_step_{nm}", props={"C14": "quick", "C01": "quick", "C02": "quick"},
        claim=f"compute_fields inductive step, {txt}: Inv(prev) => Inv(event), selection and transition equal the Boolean function, prev_in_result rule", **CF)
for nm, tier in (("nonvert_pp0", "quick"), ("nonvert_pp1", "quick"), ("nonvert_pp2", "quick"), ("vert_pp0", "quick"), ("vert_pp1", "quick"),
                 ("nonvert_pp1_older", "thorough"), ("vert_pp1_older", "thorough")):
    reg(f"cf_twins_{nm}", props={"C14": tier, "C01": tier, "C02": tier, "C06": tier if nm in ("nonvert_pp1", "vert_pp1") else "thorough"},
        claim=f"coincident pair ({nm}: pair verticality, predecessor kind 0 none/1 non-vertical/2 vertical, insertion order): lower/upper twin flags, "
              "typing, exactly one twin in result with the direction of the combined change, Inv(upper twin) for the successor", **CF)
for _t in ("plain", "same", "diff"):
    reg(f"cf_relational_{_t}", props={"C05": "quick"}, claim=f"({_t} edge) ""the four selection tables related on one flag state: xor = union (+) intersection, difference = union on subject / intersection on clipping edges, shared-edge subsets, directions", **dict(CF, est_s=200))

# --------------------------------------------------------------------------------------- L-FILL
for f in ("f64", "f32"):
    reg(f"fill_edge_{f}", file="fq/mod.rs", props={"C13": "quick" if f == "f64" else "thorough", "C07": "quick" if f == "f64" else "thorough", "C10": "thorough"},
        lemma="L-FILL-EDGE", inst=f, unwind=4, est_s=240, cap_s=1800, mem_gb=16,
        domain="one edge a->b, both endpoints on the N x N lattice window (either direction, possibly collapsed), any tags, fresh or arbitrary previous box; real SweepEvent::cmp, real BinaryHeap",
        claim="process_polygon on one edge: collapsed edge creates nothing and leaves the box; otherwise exactly one mutually linked pair, left = lexicographically smaller endpoint whichever way the edge is written, tags copied, box extended by exactly the start point")
for _nm in ("real_first", "collapsed_first"):
    reg(f"fill_two_edges_{_nm}", file="fq/mod.rs", props={"C13": "quick", "C07": "quick", "C03": "thorough", "C04": "thorough"}, lemma="L-FILL-EDGE", inst="f64", unwind=6, est_s=300, cap_s=2400, mem_gb=24,
        domain=f"two consecutive edges a->b->c of one ring, first edge concrete ({_nm}), third vertex anywhere on the 3 x 3 lattice window (second edge possibly collapsed), fresh box; real SweepEvent::cmp, BinaryHeap::push recorded",
        claim="process_polygon handles every edge of a ring on its own: one non-degenerate pair per non-degenerate edge wherever the repeated vertices are; box = hull of the start points of the non-degenerate edges")
for _nm in ("2h_2h", "1_1h", "0_2", "2_0"):
  reg(f"fill_ids_{_nm}", file="fq/mod.rs", props={"C13": "quick", "C07": "quick", "C05": "quick"}, lemma="L-FILL-IDS", inst="f64", unwind=4, est_s=120, cap_s=1200, mem_gb=16,
    domain=f"operand shapes {_nm} (polygons per operand, h = with a hole), all four operations symbolic; process_polygon replaced by a recorder",
    claim="fill_queue's own loops: every exterior and interior ring of every polygon is passed on exactly once in order, subject rings tagged subject; contour ids increase per polygon (for Difference only per subject polygon); exterior flag per spec")

# --------------------------------------------------------------------------------------- L-DISP
DISP_MODELS = [("src/boolean/fill_queue.rs", "fill_queue", "crate::boolean::verif_kani::h_disp::fill_queue_model"),
               ("src/boolean/subdivide_segments.rs", "subdivide", "crate::boolean::verif_kani::h_disp::subdivide_model"),
               ("src/boolean/connect_edges.rs", "connect_edges", "crate::boolean::verif_kani::h_disp::connect_edges_model")]
DISP = dict(file="boolean/h_disp.rs", lemma="L-DISP", inst="f64", unwind=4, est_s=120, cap_s=1500, mem_gb=20, native_models=DISP_MODELS)
DISP_DOM = ("concrete operand sizes, operation symbolic; callee models: fill_queue (boxes: untouched for an operand without polygons, else arbitrary valid box in {0..7}^4 or untouched; "
            "restricted to disjoint / non-disjoint boxes where the harness name says shortcut / sweep), subdivide (recorder), connect_edges (concrete forest template)")
reg("dispatch_predicate", props={"C01": "quick", "C06": "quick"}, domain=DISP_DOM,
    claim="Polygon x Polygon, all boxes, all operations: the sweep is skipped iff the two boxes are disjoint on some axis (strictly: boxes that merely touch are swept); the shortcut returns empty / subject / subject++clipping; the sweep receives the boxes and the operation", **DISP)
for nm, txt in (("forward_poly_multi2", "Polygon x MultiPolygon(2), Difference"), ("forward_multi2_multi1", "MultiPolygon(2) x MultiPolygon(1), Difference"),
                ("forward_multi2_poly", "MultiPolygon(2) x Polygon, Difference"), ("union_multi1_multi1", "MultiPolygon(1) x MultiPolygon(1), Union")):
    reg(f"dispatch_{nm}", props={"C01": "quick", "C06": "quick", "C07": "quick"}, domain=DISP_DOM,
        claim=f"{txt}: one call of the common routine with (self, rhs) as (subject, clipping) in that order; disjoint boxes hand the polygons back unchanged and in order", **DISP)
for nm in ("subject", "clipping", "both"):
    reg(f"dispatch_empty_{nm}", props={"C06": "quick", "C03": "quick"}, domain=DISP_DOM,
        claim=f"empty {nm} operand(s): never reaches the sweep; union/xor and A-minus-empty return the other operand, intersection and empty-minus-A return the empty set", **DISP)
# dispatch_sweep_forest{0..3} and dispatch_grouping_forest{0..3} (assembly of polygons from the contour forest) exist in
# h_disp.rs but are not registered: they run out of memory at 30-44 GB even for two contours (DESIGN 10.5).
reg("dispatch_named_methods", props={"C01": "quick", "C07": "quick"}, domain=DISP_DOM, claim="intersection/union/xor/difference convenience methods call boolean() with the operation they name", **DISP)

# --------------------------------------------------------------------------------------- L-NEST / L-ITER / L-SORT
for nm in ("flat", "h20", "h21", "h10", "h10_h20"):
    reg(f"nest_cases_{nm}", file="ce/mod.rs", props={"C02": "quick"}, lemma="L-NEST", inst="f64", unwind=5, est_s=60, cap_s=1200, mem_gb=16,
        domain=f"forest of 3 contours of shape {nm} (the five shapes with parent-before-hole and exterior parents are all there are), depths 0..3 symbolic x lower edge absent / InOut / OutIn with any assigned contour id",
        claim="Contour::initialize_from_context implements the four parent cases; exactly the parent gains the new hole id; nothing else changes")
for nm in ("outin", "inout"):
    reg(f"nest_index_unassigned_{nm}", file="ce/mod.rs", props={"C03": "quick"}, lemma="L-NEST", inst="f64", unwind=5, est_s=60, cap_s=1200, mem_gb=16,
        domain=f"lower edge with unassigned contour id (-1), transition {nm}",
        claim="initialize_from_context returns (no index panic) even when the lower edge's contour id was never assigned")
for n in (3, 4, 5):
    reg(f"iter_order_n{n}", file="ce/mod.rs", props={"C04": "quick" if n < 5 else "thorough", "C02": "quick" if n < 5 else "thorough"}, lemma="L-ITER", inst="generic T=(u8,bool)", unwind=7, est_s=60, cap_s=1200, mem_gb=16,
        domain=f"all sorted sequences of {n} entries over 3 point values with arbitrary L/R kinds (R before L within a point)",
        claim="precompute_iteration_order: a permutation whose cycles are exactly the same-point groups (walking never leaves the vertex), R ascending then L descending")
# sort3 (order_events on 4 events) exists in ce/mod.rs but is not registered: out of memory at 20 GB (DESIGN 10.5)
if False:
  reg("sort3", file="ce/mod.rs", props={"C15": "thorough"}, lemma="L-SORT", inst="f64", unwind=5, est_s=900, cap_s=2700, mem_gb=20,
    domain="two result segments of different operands on the 3 x 3 lattice window (4 events)", claim="order_events: bubble sort terminates, output sorted and a permutation, other_pos pairs partners")


# --------------------------------------------------------------------------------------- L-DIV
for f in ("f64", "f32"):
    q = "quick" if f == "f64" else "thorough"
    reg(f"divide_contract_{f}", file="boolean/h_div.rs", props={"C13": q, "C16": q, "C03": q, "C04": q, "C10": "thorough"}, lemma="L-DIV", inst=f, unwind=4, est_s=400, cap_s=2400, mem_gb=24,
        domain="any lattice segment (N x N window), any lattice point of its bounding box except the endpoints (on or off the segment), real BinaryHeap, real SweepEvent::cmp",
        claim="divide_segment: two new events pushed, two mutually linked non-degenerate pairs meeting at the requested point, left event first in both (corner case 2 swaps roles), new events in the future of the sweep, tags inherited, endpoints unchanged")
    reg(f"divide_ulp_{f}", file="boolean/h_div.rs", props={"C16": q, "C03": q, "C10": "thorough"}, lemma="L-DIV", inst=f, unwind=5, est_s=400, cap_s=2400, mem_gb=24,
        domain="one-ulp lattice: x = 1 + i*ulp(1), i < 3, y in 0..3: near-vertical slivers at the resolution limit, where the one-ulp bump of corner case 1 is live code",
        claim="divide_segment at the resolution limit: same contract; the realised point is the requested one or the documented one-ulp bump (the bump itself is the recorded finding KF4)")

# --------------------------------------------------------------------------------------- G-SWEEP protocol
SWEEP_MODELS = [("src/boolean/compare_segments.rs", "compare_segments", "crate::boolean::verif_kani::h_sweep::compare_segments_model"),
                ("src/boolean/compute_fields.rs", "compute_fields", "crate::boolean::verif_kani::h_sweep::compute_fields_model"),
                ("src/boolean/possible_intersection.rs", "possible_intersection", "crate::boolean::verif_kani::h_sweep::possible_intersection_model")]
# template mid_last exists in h_sweep.rs but is not registered (not re-measured after the heap push was stubbed; before that CBMC
# reported a pointer failure inside Vec::push on every path that did not reproduce natively, DESIGN 11)
for nm, txt in (("mid_removed", "the middle segment ends first (its removal makes the outer two neighbours)"), ("insert_between", "a segment is inserted between two present ones")):
    reg(f"sweep_protocol_{nm}", file="boolean/h_sweep.rs", props={"C13": "quick", "C14": "thorough", "C05": "thorough"}, lemma="G-SWEEP(protocol)", inst="f64", unwind=16,
        est_s=300, cap_s=2400, mem_gb=20, native_models=SWEEP_MODELS,
        domain=f"template: three stacked disjoint segments, {txt}; complete sweep (Union), operand tags and every return code of possible_intersection (2 / not 2) symbolic; callees replaced by recorders, BinaryHeap::pop scripted (delivers the template's events in sweep order), SplaySet replaced by a sorted-array model (its behaviour is C17)",
        claim="subdivide's loop: fields from the predecessor, neighbour checks (event,next) and (prev,event) on insertion and (prev,next) after removal, independent of operand tags; recomputation on return code 2; early exit rule; every popped event reported")

reg("divide_ulp_half_f64", file="boolean/h_div.rs", props={"C16": "quick", "C13": "thorough", "C03": "thorough"}, lemma="L-DIV", inst="f64", unwind=5, est_s=400, cap_s=2400, mem_gb=24,
    domain="one-ulp lattice around 1/2: x = 0.5 + i*2^-53, i < 3, y in 0..3 (neighbouring abscissas closer than f64::EPSILON)",
    claim="divide_segment at the resolution limit below 1: same contract; left/right roles are swapped exactly for an exactly vertical remainder above the right endpoint")

for _nm, _txt in (("sweep_early_exit", "subject bottom and top, clipping middle segment ending first"), ("sweep_early_exit_clip_left", "a clipping segment entirely left of the subject below a clipping segment reaching over it")):
  reg(_nm, file="boolean/h_sweep.rs", props={"C13": "quick", "C05": "quick"}, lemma="G-SWEEP(protocol)", inst="f64", unwind=16,
    est_s=300, cap_s=2400, mem_gb=24, native_models=SWEEP_MODELS,
    domain=f"three-segment template ({_txt}); operation symbolic, boxes = the exact hulls of the operands, tags concrete, return codes 0; same models",
    claim="subdivide stops at the first event right of min(subject box, clipping box) for Intersection, right of the subject box for Difference, never for Union/Xor; the event that triggers the stop is reported; the protocol up to there is unchanged")

# --------------------------------------------------------------------------------------- L-PI
PI_DIV = ("src/boolean/divide_segment.rs", "divide_segment", "crate::boolean::verif_kani::h_pi::divide_segment_model")
reg("pi_none", file="boolean/h_pi.rs", props={"C16": "quick", "C13": "quick"}, lemma="L-PI", inst="f64", unwind=3, est_s=60, cap_s=1200, mem_gb=16,
    native_models=[("src/boolean/segment_intersection.rs", "intersection", "crate::boolean::verif_kani::h_pi::intersection_model_none"), PI_DIV],
    domain="two lattice segments (N x N), any tags/flags; intersection() modelled to return None, divide_segment by its L-DIV contract (recorder)",
    claim="possible_intersection, None arm: return code 0, nothing divided, nothing typed")
reg("pi_point", file="boolean/h_pi.rs", props={"C16": "quick", "C13": "quick", "C04": "quick"}, lemma="L-PI", inst="f64", unwind=3, est_s=120, cap_s=1500, mem_gb=16,
    native_models=[("src/boolean/segment_intersection.rs", "intersection", "crate::boolean::verif_kani::h_pi::intersection_model_point"), PI_DIV],
    domain="two lattice segments (N x N) with exactly one common point, any tags; intersection() modelled to return Point(p): p = the endpoint for endpoint hits (L-INT), else ANY float point inside both boxes; divide_segment modelled by its L-DIV contract (recorder)",
    claim="possible_intersection, Point arm: 0 and untouched when the segments share their left or right endpoint; else 1 and exactly the segments not having the point as an endpoint are divided, all at that one point; no typing")
OV_CFG = ["identical", "common left endpoint, first shorter", "common left endpoint, second shorter", "common right endpoint, first starts first", "common right endpoint, second starts first",
          "partial overlap, first starts first", "partial overlap, second starts first", "first contains second", "second contains first"]
OV_DIR = dict(h="horizontal", v="vertical", r="rising", f="falling")
# templates verified to fit into 44 GB / 15 min on the unchanged tree (the others stay in the thorough tier only if they fit)
OV_QUICK_ROTATION = ["v6s", "f5s", "h5s", "h6c", "v5c", "v8s", "v1_same", "r6s"]  # those that take <= 400 s
# registered = the templates that fit into 44 GB on the unchanged tree (measured once each); the other ten configurations
# (h2s h3s h7s v2c v3c v7c r4c r7c f2s f3c) exist in h_pi.rs but run out of memory in the solver and are not registered
OV_ALL = ["h0s", "h1c", "h4c", "h5s", "h6c", "h8c", "h5_same", "v0c", "v1s", "v4s", "v5c", "v6s", "v8s", "v1_same",
          "r1s", "r6s", "f5s", "f6c", "f8s"]
for nm in OV_ALL:
    d, c = OV_DIR[nm[0]], OV_CFG[int(nm[1])]
    who = "same operand" if nm.endswith("_same") else ("first segment subject" if nm[2] == "s" else "first segment clipping")
    reg(f"pi_ov_{nm}", file="boolean/h_pi.rs", props={"C16": "thorough", "C13": "thorough", "C06": "thorough"}, lemma="L-PI", inst="f64", unwind=5, est_s=900, cap_s=2400, mem_gb=44, native_models=[PI_DIV],
        domain=f"Overlap arm template: {d} line, {c}, {who}; geometry and tags concrete, in/out flags symbolic; REAL intersection and event order; divide_segment replaced by its L-DIV contract model (relink + record)",
        claim="possible_intersection, Overlap arm: same operand -> 0 untouched; else every segment is split at exactly the other's endpoints strictly inside it, return code 2 (common left endpoint: upper twin NonContributing, lower twin Same/DifferentTransition by equal/opposite in_out, twins coincide afterwards) or 3")

# --------------------------------------------------------------------------------------- L-INT
INT = dict(file="boolean/h_int.rs", unwind=3, lemma="L-INT", mem_gb=16, cap_s=1800,
           domain="two segments with endpoints on the N x N lattice window (all 8 coordinates symbolic); no stub: the float kernel is encoded bit-precisely")
for f in ("f32", "f64"):
    q = "quick" if f == "f32" else "thorough"
    reg(f"int_classify_{f}", props={"C16": q, "C04": q, "C10": q}, inst=f, est_s=100 if f == "f32" else 400,
        claim="intersection(): None/Point/Overlap exactly as the integer reference; points inside both boxes; within tolerance of the exact rational point; endpoint hits bit-identical; axis-parallel exact", **INT)
    reg(f"int_swap_{f}", props={"C16": q}, inst=f, est_s=150 if f == "f32" else 600,
        claim="intersection(a,b) vs intersection(b,a): same kind; identical point for endpoint hits and axis-parallel crossings, both within tolerance otherwise", **INT)
    if f == "f64":
        continue  # int_scale_f64 does not finish within 30 min
    reg(f"int_scale_{f}", props={"C08": q}, inst=f, est_s=150 if f == "f32" else 600,
        claim="intersection() commutes bit-identically with scaling of all coordinates by 2^k, k in -3..3", **INT)
reg("int_agree", props={"C10": "quick"}, inst="f32+f64", est_s=300,
    claim="f32 and f64 instantiations of intersection(): same kind; equal coordinates for endpoint hits and axis-parallel crossings", **INT)

# --------------------------------------------------------------------------------------- C15 orders
ORD = dict(file="boolean/h_ord.rs", unwind=3, mem_gb=20, cap_s=1800)
for f in ("f64", "f32"):
    for k, txt in (("ll", "two left events"), ("lr", "a left and a right event"), ("rr", "two right events")):
        reg(f"evord_{k}_{f}", props={"C15": "quick" if f == "f64" else "thorough", "C10": "thorough"}, lemma="L-ORD-E", inst=f, est_s=300,
            domain="two segments with endpoints on the N x N lattice window, any operand tags, validity: edges of one operand never overlap",
            claim=f"impl Ord for SweepEvent on {txt}: never Equal, antisymmetric, equals the reference (x, y, right-before-left, lower segment first, subject first); is_before/is_after consistent", **ORD)
for k in ("lll", "llr", "lrr", "rrr"):
    reg(f"evord_triple_{k}", props={"C15": "thorough"}, lemma="L-ORD-E", inst="f64", est_s=900,
        domain="three segments on the 3 x 3 lattice window, pairwise valid", claim=f"event order transitive on triples ({k}: endpoint kinds)", **dict(ORD, cap_s=2700))
reg("segord_oracle_f32_n3", props={"C15": "quick"}, lemma="L-ORD-S", inst="f32", est_s=400,
    domain="two left events, endpoints on the 3 x 3 lattice window, any operand tags; same-operand overlaps excluded",
    claim="compare_segments(a, b) for every ordered pair: never Equal for distinct segments, equals the vertical order of non-crossing pairs where separated (which is antisymmetric by construction), subject below for coincident edges, vertical-edge convention", **ORD)
for nm, f in (("f32_n3_same", "f32"), ("f32_n3_diff", "f32"), ("f64_n3", "f64")):
    reg(f"segord_pair_{nm}", props={"C15": "thorough", "C06": "thorough"}, lemma="L-ORD-S", inst=f, est_s=500,
        domain="two left events, endpoints on the 3 x 3 lattice window" + (", both of one operand (overlaps excluded)" if nm.endswith("same") else ", of different operands" if nm.endswith("diff") else ", any operand tags; same-operand overlaps excluded"),
        claim="compare_segments: Equal iff identical, antisymmetric, equals the vertical order of non-crossing pairs where separated, subject below for coincident edges, vertical-edge convention", **ORD)
for f in ("f32", "f64"):
    reg(f"segord_pair_{f}", props={"C15": "thorough", "C10": "thorough"}, lemma="L-ORD-S", inst=f, est_s=1500,
        domain="two left events, endpoints on the N x N lattice window (N = 6 in the thorough tier)",
        claim="compare_segments: Equal iff identical, antisymmetric, equals the vertical order of non-crossing pairs where separated, subject below for coincident edges, vertical-edge convention", **dict(ORD, cap_s=3600, mem_gb=24))

# --------------------------------------------------------------------------------------- C18 L-DEPTH
DEPTH = dict(file="splay/h_depth.rs", lemma="L-DEPTH", mode="recursion", unwind=8, inst="SplayTree<u8,u8,fn>", est_s=20, cap_s=600,
             domain="chains of 12 nodes (left and right), unwind bound 8: recursion deeper than 8 on a 12-chain is reported by CBMC's recursion unwinding assertion")
for nm, txt in (("drop_left_chain", "Drop of a left chain"), ("drop_right_chain", "Drop of a right chain"), ("clear_left_chain", "clear() of a left chain"), ("clear_right_chain", "clear() of a right chain"),
                ("into_iter_partial_left", "dropping a partly consumed IntoIter (left chain, one next_back)"),
                ("into_iter_partial_right", "dropping a partly consumed IntoIter (right chain, one next)"),
                ("into_iter_unused", "dropping an unused IntoIter"),
                ("remove_root_over_right_chain", "remove of a root whose left subtree is a 12-node right chain"), ("set_drop", "SplaySet built by monotone insertion, dropped (what subdivide's early break does)"),
                ("get_far_end_left", "get of the deepest key, left chain"), ("get_far_end_right", "get of the deepest key, right chain"),
                ("next_prev", "next/prev on a chain"), ("min_max", "min/max on a chain"), ("insert_far_end", "insert at the far end of a chain"),
                ("remove_max_right_chain", "remove max of a right chain"), ("remove_min_left_chain", "remove min of a left chain"),
                ("remove_root_left_chain", "remove root of a left chain"), ("remove_root_right_chain", "remove root of a right chain")):
    reg(f"depth_{nm}", props={"C18": "quick"}, claim=f"{txt}: no recursion that follows the chain (stack use independent of the number of nodes)", **DEPTH)
# natively the same situation (removed root whose left subtree has a long right spine) is reached through the
# public API by removing the maximum of a tree built by descending insertion
H["depth_remove_root_over_right_chain"]["probe"] = "remove_max_right_chain"
for nm in ("drop_left_chain", "drop_right_chain", "clear_left_chain", "clear_right_chain", "into_iter_partial_left", "into_iter_partial_right", "into_iter_unused"):
    reg(f"depth_{nm}_full", props={"C18": "quick"}, file="splay/h_depth.rs", lemma="L-DEPTH", unwind=30, inst="SplayTree<u8,u8,fn>", est_s=30, cap_s=600,
        domain="same 12-node chain under unwind bound 30 (covers every loop): the whole teardown passes all checks, so nothing of the bound-8 run was cut off unseen",
        claim=f"{nm}: complete pass (memory safety, no leak of control past the teardown) under a covering bound")

# --------------------------------------------------------------------------------------- C17 L-SPLAY
SEQ = dict(file="splay/h_seq.rs", lemma="L-SPLAY", unwind=3, inst="SplayTree<u8,u8,fn>", mem_gb=16,
           domain="all keys (< 4) and values (u8) symbolic: every key order, duplicate and absent key, hence every tree shape the sequence can reach")
QTXT = dict(get="get/contains", next="next (successor)", prev="prev (predecessor)", minmax="min/max/len/is_empty", shape="BST shape, node count, len",
            refstab="reference stability of find_key/get results across further lookups", iter="consuming iteration in any mix of directions + size_hint")
def _seq(name, tier, est):
    ops, q = name.split("_")[1], name.split("_")[2]
    reg(name, props={"C17": tier}, est_s=est, cap_s=2400 if tier == "thorough" else 900,
        claim=f"after the update sequence [{' '.join({'i':'insert','r':'remove'}[c] for c in ops)}] with arbitrary keys: {QTXT[q]} agree with the sorted-array reference", **SEQ)
for q in ("get", "next", "prev", "minmax", "shape", "refstab", "iter"):
    _seq(f"sp_ii_{q}", "quick", 120)
_seq("sp_ir_get", "quick", 100); _seq("sp_ir_shape", "quick", 100)
for _nm in ("left_chain", "right_chain", "zigzag_lr", "zigzag_rl", "balanced"):
    reg(f"sp_refstab3_{_nm}", props={"C17": "quick"}, est_s=200, cap_s=1500,
        claim=f"3-node tree of shape {_nm}: after two lookups of arbitrary kind and key every stored key is still at its old address (only box pointers move), contents unchanged",
        **dict(SEQ, unwind=4, domain="concrete initial shape (all five 3-node shapes have a harness), lookup kinds and keys symbolic"))
for _nm in ("left_chain", "right_chain", "zigzag_lr", "zigzag_rl", "balanced"):
    reg(f"sp_remove3_{_nm}", props={"C17": "quick"}, est_s=200, cap_s=1500,
        claim=f"3-node tree of shape {_nm}: one remove with an arbitrary key (present or absent) returns what the reference returns and leaves a BST holding exactly the reference entries",
        **dict(SEQ, unwind=4, domain="concrete initial shape (all five 3-node shapes have a harness), key symbolic"))
    reg(f"sp_query3_{_nm}", props={"C17": "thorough"}, est_s=500, cap_s=2400,
        claim=f"3-node tree of shape {_nm}: get / next / prev with an arbitrary key agree with the reference and leave the contents intact",
        **dict(SEQ, unwind=4, mem_gb=30, domain="concrete initial shape (all five 3-node shapes have a harness), query kind and key symbolic"))
_seq("sp_i_iter", "quick", 100)
for _nm in ("left_chain", "right_chain", "zigzag_lr", "zigzag_rl", "balanced"):
    reg(f"sp_iter3_{_nm}", props={"C17": "quick"}, est_s=20, cap_s=900,
        claim=f"3-node tree of shape {_nm}: consuming iteration in any mix of directions yields exactly the reference entries in order; size_hint; exhaustion",
        **dict(SEQ, unwind=5, domain="concrete initial shape (all five 3-node shapes have a harness) x six concrete direction patterns of three pulls (template run: shape and directions determined)"))
reg("sp_getmut_index", props={"C17": "quick"}, est_s=200, cap_s=1200, claim="get_mut, Index and IndexMut after two inserts with arbitrary keys agree with the reference", **SEQ)
reg("sp_extend", props={"C17": "quick"}, est_s=300, cap_s=1500, claim="extend (incl. duplicate keys, later pairs replace earlier ones) against the reference; BST shape", **dict(SEQ, unwind=4))
reg("sp_clear", props={"C17": "quick"}, est_s=60, cap_s=900, claim="clear() of each of the five 3-node shapes empties the map and leaves it usable", **dict(SEQ, unwind=8, domain="five concrete 3-node shapes"))
reg("sp_set_insert_lookup", props={"C17": "quick"}, est_s=200, cap_s=1500, claim="SplaySet insert/contains/find/min/max/len/is_empty agree with the reference set", **dict(SEQ, inst="SplaySet<u8, closure>"))
reg("sp_set_neighbours_remove", props={"C17": "quick"}, est_s=200, cap_s=1500, claim="SplaySet next/prev/remove agree with the reference set", **dict(SEQ, inst="SplaySet<u8, closure>"))

for q in ("get", "next", "prev", "minmax", "shape"):  # sp_iii_refstab / sp_iii_iter: out of memory at 24 GB; the 3-node shape harnesses cover them
    _seq(f"sp_iii_{q}", "thorough", 900)
for nm in ("sp_iir_get", "sp_iir_next", "sp_iir_shape", "sp_iri_shape", "sp_iri_get"):
    _seq(nm, "thorough", 700)
for nm in ("sp_iiri_shape", "sp_iiir_shape", "sp_iiir_get", "sp_iiii_shape", "sp_iiii_refstab"):
    _seq(nm, "thorough", 2000)
for _n in list(H):
    if _n.startswith("sp_iii") or _n.startswith("sp_iir") or _n.startswith("sp_iri"):
        H[_n]["unwind"] = 4
        H[_n]["mem_gb"] = 24
    if _n.startswith("sp_iiii") or _n.startswith("sp_iiir") or _n.startswith("sp_iiri"):
        H[_n]["unwind"] = 5
        H[_n]["mem_gb"] = 44

# --------------------------------------------------------------------------------------- tables
COMMON_ASSUMPTIONS = [
    "Kani 0.68 / CBMC 6.11 model of Rust semantics, IEEE-754 arithmetic bit-precise; no allocation failure; debug assertions on (dev profile)",
    "every result is bounded: it holds for all inputs of the stated harness domain and says nothing outside it",
    "where listed as stub: robust::orient2d is replaced by the plain f64 determinant, exact on the lattice / fixed-point domains used (trusted, DESIGN 2.3); native replays run the real predicate",
    "callee contract models (listed as stubs) stand for functions whose real bodies are decided by their own harnesses (assume-guarantee composition is a paper step)",
]
PROP_BOUNDS = {
    "C14": "complete flag space of one compute_fields step (operation, operand tags, world below, predecessor kind, stale state); geometry concrete",
    "C01": "flag space complete; dispatch: boxes in {0..7}^4, operands of 1 polygon (predicate) / <= 3 polygons (forwarding)",
    "C15": "event pairs on the 4x4 lattice window, segment pairs on the 3x3 window (quick); triples and larger windows in the thorough tier",
    "C16": "segment pairs on the 4x4 (quick) / 6x6 (thorough) lattice window; Overlap arm on interval templates; one-ulp lattice of 3x4 points",
    "C17": "<= 2 updates with symbolic keys < 4 (quick) plus every 3-node shape for remove / reference stability; <= 4 updates (thorough)",
    "C18": "12-node chains, unwind 8 (recursion verdict) and 30 (complete pass)",
}
PROP_OUTSIDE = {p: "whole BooleanOp calls, the sweep loop beyond the three-segment templates, the contour walk, general-position floats (see DESIGN.md 3, 4, 10)" for p in
                ("C01", "C02", "C03", "C04", "C05", "C06", "C07", "C08", "C10", "C13", "C14", "C16")}
PROP_OUTSIDE["C15"] = "more than three events/segments at a time, windows larger than stated, general-position floats"
PROP_OUTSIDE["C17"] = "histories longer than four updates, more than four keys, long random histories"
PROP_OUTSIDE["C18"] = "CBMC has no stack model: the claim is 'no recursion following the chain' on 12-node chains; the step to 10^6 nodes is structural induction (paper)"
PROP_ASSUMPTIONS = {}

# Explicit quick tiers (the check run on every change): the harnesses most specific to the property,
# sized so that one property finishes in roughly 5-12 minutes on 16 cores; everything tagged for the
# property runs in the thorough tier.
QUICK = {
    "C01": ["cf_base", "cf_step_same_nonvert", "cf_step_diff_nonvert", "cf_step_same_vert", "cf_step_diff_vert", "cf_twins_nonvert_pp1", "dispatch_predicate", "dispatch_named_methods"],
    "C02": ["nest_cases_flat", "nest_cases_h20", "nest_cases_h21", "nest_cases_h10", "nest_cases_h10_h20", "cf_twins_nonvert_pp1", "cf_twins_vert_pp1", "cf_step_diff_nonvert", "cf_step_same_vert", "iter_order_n3", "iter_order_n4"],
    "C03": ["nest_index_unassigned_outin", "nest_index_unassigned_inout", "divide_contract_f64", "divide_ulp_f64", "dispatch_empty_subject", "dispatch_empty_clipping", "dispatch_empty_both"],
    "C04": ["int_classify_f32", "pi_point", "iter_order_n3", "iter_order_n4", "divide_contract_f64"],
    "C05": ["cf_relational_plain", "cf_relational_same", "fill_ids_2h_2h", "fill_ids_1_1h", "sweep_early_exit_clip_left"],
    "C06": ["dispatch_predicate", "dispatch_empty_subject", "dispatch_empty_clipping", "dispatch_empty_both", "dispatch_union_multi1_multi1", "cf_twins_nonvert_pp1"],
    "C07": ["dispatch_forward_poly_multi2", "dispatch_forward_multi2_multi1", "dispatch_forward_multi2_poly", "dispatch_named_methods", "fill_edge_f64", "fill_two_edges_real_first", "fill_ids_2h_2h", "fill_ids_1_1h", "fill_ids_0_2", "fill_ids_2_0"],
    "C08": ["int_scale_f32"],
    "C10": ["nextafter_f64", "nextafter_f32", "int_classify_f32", "int_agree", "signed_area_forwards_f32", "signed_area_forwards_f64", "signed_area_orientation"],
    "C13": ["fill_edge_f64", "fill_two_edges_real_first", "fill_two_edges_collapsed_first", "fill_ids_2h_2h", "fill_ids_0_2", "divide_contract_f64", "pi_none", "pi_point", "sweep_protocol_mid_removed", "sweep_protocol_insert_between", "sweep_early_exit"],
    "C14": ["cf_base", "cf_step_same_nonvert", "cf_step_diff_nonvert", "cf_step_same_vert", "cf_step_diff_vert", "cf_twins_nonvert_pp0", "cf_twins_nonvert_pp1", "cf_twins_nonvert_pp2", "cf_twins_vert_pp0", "cf_twins_vert_pp1"],
    "C15": ["evord_ll_f64", "evord_lr_f64", "evord_rr_f64", "segord_oracle_f32_n3"],
    "C16": ["int_classify_f32", "divide_contract_f64", "divide_ulp_f64", "divide_ulp_half_f64", "pi_none", "pi_point", "pi_ov_v6s"],
    "C17": ["sp_ii_get", "sp_ii_next", "sp_ii_prev", "sp_ii_minmax", "sp_ii_shape", "sp_i_iter", "sp_ir_get", "sp_ir_shape", "sp_getmut_index", "sp_extend", "sp_clear", "sp_set_insert_lookup", "sp_set_neighbours_remove",
            "sp_refstab3_left_chain", "sp_refstab3_zigzag_lr", "sp_iter3_zigzag_rl", "sp_iter3_zigzag_lr", "sp_iter3_left_chain", "sp_iter3_right_chain", "sp_iter3_balanced",
            "sp_remove3_right_chain", "sp_remove3_zigzag_lr",
            ],
}

if __import__("os").environ.get("KCHECK_DEBUG_PROP"):
    for _n in __import__("os").environ["KCHECK_DEBUG_PROP"].split(","):
        H[_n]["props"]["C99"] = "quick"
PROPS = {}
for name, h in H.items():
    for pid, t in h["props"].items():
        PROPS.setdefault(pid, {"quick": [], "thorough": []})
        if t == "quick" and pid not in QUICK:
            PROPS[pid]["quick"].append(name)
        PROPS[pid]["thorough"].append(name)
for pid, names in QUICK.items():
    for n in names:
        assert n in H, n
        H[n]["props"].setdefault(pid, "quick")
        if n not in PROPS.setdefault(pid, {"quick": [], "thorough": []})["thorough"]:
            PROPS[pid]["thorough"].append(n)
    PROPS[pid]["quick"] = list(names)


def harnesses_for(prop, tier, seed=0):
    names = list(PROPS.get(prop, {}).get(tier, []))
    if tier == "quick" and prop == "C16":
        # one Overlap-arm template (44 GB, ~6 min, runs practically alone) per quick run, rotated by VERIF_SEED
        # over the templates in OV_QUICK_ROTATION; seed 0 -> pi_ov_v6s (vertical, partial, second starts first)
        rot = [f"pi_ov_{n}" for n in OV_QUICK_ROTATION]
        names = [n for n in names if not n.startswith("pi_ov_")] + [rot[seed % len(rot)]]
    return names
