"""Harness registry: which Kani harness decides what, for which property and tier.

H[name] = dict(
  file   = harness module file (relative to harness/kani) that contains the #[kani::proof] fn,
  props  = {property id: tier}   tier "quick" = runs in both tiers, "thorough" = thorough only,
  lemma, claim, domain, inst     = free text for the evidence,
  cap_s, mem_gb, est_s           = wall cap, address-space cap, expected wall (scheduling),
  mode   = "assert" (default) | "recursion" (verdict = recursion unwinding assertions),
  native_models = [(src file, fn, model path)]  callee models that a native replay must link too,
)
"""

H = {}

# source file -> harness module file (a child module sees the private items of its parent)
INJECT = {
    "src/boolean/mod.rs": "boolean/mod.rs",
    "src/boolean/fill_queue.rs": "fq/mod.rs",
    "src/boolean/connect_edges.rs": "ce/mod.rs",
    "src/boolean/compute_fields.rs": "cf/mod.rs",
    "src/boolean/segment_intersection.rs": "si/mod.rs",
    "src/splay/tree.rs": "splay/mod.rs",
}
MODPATH = {
    "boolean": "boolean::verif_kani",
    "fq": "boolean::fill_queue::verif_kani",
    "ce": "boolean::connect_edges::verif_kani",
    "cf": "boolean::compute_fields::verif_kani",
    "si": "boolean::segment_intersection::verif_kani",
    "splay": "splay::tree::verif_kani",
}


def qualified(name):
    d, f = H[name]["file"].split("/")
    m = MODPATH[d]
    if f != "mod.rs":
        m += "::" + f[:-3]
    return m + "::" + name


def reg(name, **kw):
    kw.setdefault("cap_s", 600)
    kw.setdefault("mem_gb", 12)
    kw.setdefault("est_s", 30)
    H[name] = kw


ORIENT_STUB = "robust::orient2d replaced by the exact determinant on lattice inputs (trusted, DESIGN 2.3)"

# --------------------------------------------------------------------------------------- C10 helper
for f in ("f64", "f32"):
    reg(f"nextafter_{f}", file="boolean/h_nextafter.rs", props={"C10": "quick"}, lemma="L-NEXT",
        claim=f"helper::NextAfter for {f}: strictly monotone one-ulp step in both directions, equal to the adjacent bit pattern",
        domain=f"all finite {f} values (full range)", inst=f, est_s=5, cap_s=300)


# --------------------------------------------------------------------------------------- L-CF (D-FLAGS)
FLAGS = "complete flag space: operation x operand tags x (S,C) world x predecessor kind/verticality x stale state; geometry concrete"
CF = dict(file="boolean/h_cf.rs", lemma="L-CF", domain=FLAGS, inst="f64", est_s=60, cap_s=1200, mem_gb=20, unwind=3)
reg("cf_base", props={"C14": "quick", "C01": "quick"}, claim="compute_fields without predecessor: flags (false,true), no lower result edge, selection = op(below) vs op(above)", **CF)
for nm, txt in (("same_nonvert", "same operand, non-vertical predecessor"), ("diff_nonvert", "other operand, non-vertical predecessor"),
                ("same_vert", "same operand, vertical predecessor (KF1 region)"), ("diff_vert", "other operand, vertical predecessor")):
    reg(f"cf_step_{nm}", props={"C14": "quick", "C01": "quick", "C02": "quick"},
        claim=f"compute_fields inductive step, {txt}: Inv(prev) => Inv(event), selection and transition equal the Boolean function, prev_in_result rule", **CF)
for nm, tier in (("nonvert_pp0", "quick"), ("nonvert_pp1", "quick"), ("nonvert_pp2", "quick"), ("vert_pp0", "quick"), ("vert_pp1", "quick"),
                 ("nonvert_pp1_older", "thorough"), ("vert_pp1_older", "thorough")):
    reg(f"cf_twins_{nm}", props={"C14": tier, "C01": tier, "C02": tier},
        claim=f"coincident pair ({nm}: pair verticality, predecessor kind 0 none/1 non-vertical/2 vertical, insertion order): lower/upper twin flags, "
              "typing, exactly one twin in result with the direction of the combined change, Inv(upper twin) for the successor", **CF)
reg("cf_relational", props={"C05": "quick"}, claim="the four selection tables related on one flag state: xor = union (+) intersection, difference = union on subject / intersection on clipping edges, shared-edge subsets, directions", **CF)
reg("cf_selfop_symmetry", props={"C06": "quick"}, claim="pair level: A op A keeps (intersection/union) or drops (difference/xor) every shared edge; commutative operations are symmetric in the operand tags", **CF)

# --------------------------------------------------------------------------------------- tables
PROP_BOUNDS = {}
PROP_OUTSIDE = {}
PROP_ASSUMPTIONS = {}

PROPS = {}
for name, h in H.items():
    for pid, t in h["props"].items():
        PROPS.setdefault(pid, {"quick": [], "thorough": []})
        if t == "quick":
            PROPS[pid]["quick"].append(name)
        PROPS[pid]["thorough"].append(name)


def harnesses_for(prop, tier, seed=0):
    return list(PROPS.get(prop, {}).get(tier, []))
