"""Texts of MANIFEST.json (claims, notes, not-applicable reasons)."""

HOOK_COMMITS = []

TECH = "bounded model checking of the real code (Kani/CBMC, SAT-decided, unwinding assertions on), native replay of counterexamples"

CLAIMS = {
    "C10": dict(
        text="helper::NextAfter proved for ALL finite f32 and f64 inputs (full range, bit-pattern reference); every lattice harness "
             "of the float kernels is instantiated at both F=f32 and F=f64 (named in the evidence). Bounded claim, not a proof of whole calls.",
        design_ref="DESIGN.md 4 C10",
        note="Trusted: Kani/CBMC float semantics (IEEE-754 bit-precise), robust::orient2d replaced by the exact determinant on lattice inputs. "
             "Outside: whole calls in f32, general-position floats.",
        technique=TECH,
    ),
}

CLAIMS["C14"] = dict(
    text="compute_fields decided as an inductive step over the COMPLETE flag space: for every operation, operand tagging, (subject,clipping) world below, "
         "predecessor kind (none / plain / non-contributing upper twin; vertical or not; same or other operand) and every stale state, "
         "if the predecessor's flags describe the world (Inv) then the new edge's in_out/other_in_out, result membership, transition and prev_in_result are the geometric truth; "
         "coincident twins: exactly the lower twin carries the boundary with the direction of the combined change and the upper twin hands Inv over. "
         "SAT-decided on the real function (concrete geometry: only verticality enters).",
    design_ref="DESIGN.md 4 C14, 3 L-CF",
    note="Outside the claim (paper glue): that the sweep-line predecessor is the geometric predecessor (L-ORD-S + L-SPLAY + sweep loop); typing rule of possible_intersection is applied by the harness (decided separately under C13/C16 where memory allows).",
    technique=TECH,
)
CLAIMS["C05"] = dict(
    text="relational form of the selection tables: on one and the same (symbolic) flag state the real compute_fields is run once per operation and the outputs are related: "
         "a plain edge bounds exactly one of intersection/union and always xor, difference = union on subject edges / intersection on clipping edges, directions consistent, "
         "shared edges kept by exactly the documented operations with one common direction. Complete over the flag space.",
    design_ref="DESIGN.md 4 C05",
    note="Edge-level identities only; the region/area identities of whole calls need the sweep and the contour walk (outside, whole calls cannot be executed symbolically).",
    technique=TECH,
)
CLAIMS["C18"] = dict(
    text="recursion depth of splay-tree work is independent of the node count: on 12-node chains (left and right) under unwind bound 8, CBMC's recursion unwinding assertions "
         "show that drop, clear, dropping an unused / partly consumed IntoIter, SplaySet drop (subdivide's early break), get/next/prev/min/max/insert/remove "
         "reach no recursion that follows the chain; the same teardown harnesses pass completely under a covering bound (30). Violations are replayed natively on a 3*10^6-key chain (8 MiB and 2 MiB stacks, dev+release).",
    design_ref="DESIGN.md 4 C18",
    note="CBMC has no stack model: the claim is structural (no unbounded recursion on chains of <= 12 nodes); the step to 10^6 nodes is the usual induction on the chain. Boolean operations with huge sweep lines are covered only through SplaySet drop.",
    technique="bounded model checking (Kani/CBMC recursion unwinding assertions on concrete chains), native stack probe as replay",
)

_PENDING = "check not built yet in this session (planned, see DESIGN.md 4)"
NOT_APPLICABLE = {
    "C09": "needs two complete sweeps compared, or the sweep-loop glue G-SWEEP; whole calls cannot be executed symbolically (DESIGN.md 1, 4 C09); its local mechanisms are decided under C13 (boxes) and C01/C06 (shortcut)",
    "C11": "a chain is two or three complete BooleanOp calls; none can be executed symbolically (DESIGN.md 1, 4 C11)",
    "C12": "operand immutability is a typing fact (&self, Clone), thread schedules are outside Kani, repeated whole calls cannot be executed (DESIGN.md 4 C12)",
}
for _p in ["C01", "C02", "C03", "C04", "C05", "C06", "C07", "C08", "C13", "C14", "C15", "C16", "C17", "C18"]:
    if _p not in CLAIMS:
        NOT_APPLICABLE[_p] = _PENDING

NOTES = ("All claims are bounded: 'holds for every input inside the stated lattice window / flag space / tree size', decided by the SAT solver; "
         "nothing is claimed outside the bounds listed in each evidence file. Exit 2 = inconclusive (timeout, OOM, vacuous cover, build failure).")
