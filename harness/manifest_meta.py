"""Texts of MANIFEST.json (claims, notes, not-applicable reasons)."""

HOOK_COMMITS = []

TECH = "bounded model checking of the real code (Kani/CBMC, SAT-decided, unwinding assertions on), native replay of counterexamples"

CLAIMS = {
    "C10": dict(
        text="helper::NextAfter proved for ALL finite f32 and f64 inputs (full range, bit-pattern reference); signed_area::<f32> and ::<f64> have the exact sign of the determinant "
             "on a fixed-point domain of 2^23 values per coordinate (the f32 instantiation widens losslessly before any arithmetic); intersection::<f32> decided on all lattice segment pairs and compared with ::<f64>; "
             "every lattice harness of the float kernels exists at both F=f32 and F=f64 (f64/f32 counterparts in the thorough tier). Bounded claim, not a proof of whole calls.",
        design_ref="DESIGN.md 4 C10",
        note="Trusted: Kani/CBMC float semantics (IEEE-754 bit-precise), robust::orient2d replaced by the exact determinant on lattice inputs. "
             "Outside: whole calls in f32, general-position floats.",
        technique=TECH,
    ),
}

CLAIMS["C14"] = dict(
    text="compute_fields decided as an inductive step over the COMPLETE flag space: for every operation, operand tagging, (subject,clipping) world below, "
         "predecessor kind (none / plain / non-contributing upper twin; vertical or not; same or other operand) and every stale state, "
         "if the predecessor's flags describe the world (Inv) then the new edge's in_out/other_in_out, result membership, transition and prev_in_result are the geometric truth; "
         "coincident twins: exactly the lower twin carries the boundary with the direction of the combined change and the upper twin hands Inv over. "
         "SAT-decided on the real function (concrete geometry: only verticality enters).",
    design_ref="DESIGN.md 4 C14, 3 L-CF",
    note="Outside the claim (paper glue): that the sweep-line predecessor is the geometric predecessor (L-ORD-S + L-SPLAY + sweep loop); typing rule of possible_intersection is applied by the harness (decided separately under C13/C16 where memory allows).",
    technique=TECH,
)
CLAIMS["C05"] = dict(
    text="relational form of the selection tables: on one and the same (symbolic) flag state the real compute_fields is run once per operation and the outputs are related: "
         "a plain edge bounds exactly one of intersection/union and always xor, difference = union on subject edges / intersection on clipping edges, directions consistent, "
         "shared edges kept by exactly the documented operations with one common direction. Complete over the flag space.",
    design_ref="DESIGN.md 4 C05",
    note="Edge-level identities only; the region/area identities of whole calls need the sweep and the contour walk (outside, whole calls cannot be executed symbolically).",
    technique=TECH,
)
CLAIMS["C18"] = dict(
    text="recursion depth of splay-tree work is independent of the node count: on 12-node chains (left and right) under unwind bound 8, CBMC's recursion unwinding assertions "
         "show that drop, clear, dropping an unused / partly consumed IntoIter, SplaySet drop (subdivide's early break), get/next/prev/min/max/insert/remove "
         "reach no recursion that follows the chain; the same teardown harnesses pass completely under a covering bound (30). Violations are replayed natively on a 3*10^6-key chain (8 MiB and 2 MiB stacks, dev+release).",
    design_ref="DESIGN.md 4 C18",
    note="CBMC has no stack model: the claim is structural (no unbounded recursion on chains of <= 12 nodes); the step to 10^6 nodes is the usual induction on the chain. Boolean operations with huge sweep lines are covered only through SplaySet drop.",
    technique="bounded model checking (Kani/CBMC recursion unwinding assertions on concrete chains), native stack probe as replay",
)

ORI = "Trusted: Kani 0.68/CBMC 6.11 semantics of Rust and IEEE-754; robust::orient2d replaced by the exact determinant on lattice inputs (DESIGN 2.3, trusted, native replays run the real predicate). "
GLUE = "Whole BooleanOp calls cannot be executed symbolically (DESIGN 1): the sweep loop (G-SWEEP), the contour walk (G-WALK) and the composition of the unit results (G-COMP) are paper arguments and outside the claim. "

CLAIMS["C01"] = dict(
    text="partial, compositional: (i) edge selection: compute_fields' membership/transition equals op(below) != op(above) / op(above) with op the Boolean function itself, for every operation and the COMPLETE flag space (plain edges, coincident twins, vertical predecessors); "
         "(ii) dispatch: the public impls make one call with (self, rhs) as (subject, clipping), skip the sweep iff the boxes are disjoint, and the shortcut returns empty / subject / subject++clipping. Each decided by SAT on the real function.",
    design_ref="DESIGN.md 4 C01", note=ORI + GLUE + "dispatch harnesses use contract models of fill_queue/subdivide/connect_edges (listed in the evidence).", technique=TECH)
CLAIMS["C02"] = dict(
    text="partial, compositional: (i) Contour::initialize_from_context implements the four parent cases of the paper on every forest of 3 contours and every lower edge, exactly the parent gains the hole id; "
         "(ii) the transition recorded on plain and shared edges (which decides hole vs exterior) is the geometric truth for the complete flag space, and prev_in_result skips vertical/non-result edges; "
         "(iii) precompute_iteration_order never leaves a vertex group.",
    design_ref="DESIGN.md 4 C02", note=ORI + GLUE + "That the recorded lower result edge is geometrically the nearest one, merging of touching pieces by the walk, and the assembly of polygons from the contour forest in mod.rs (harness runs out of memory, DESIGN 10.5) are outside.", technique=TECH)
CLAIMS["C03"] = dict(
    text="partial: panic-freedom of units under their preconditions (every harness carries Kani's index/unwrap/overflow/RefCell-borrow/debug_assert/unwinding checks) plus targeted obligations: "
         "initialize_from_context with an unassigned lower contour id (KNOWN-FINDING KF3), divide_segment: both pieces non-degenerate and all new events in the future of the sweep (progress), one-ulp lattice (KNOWN-FINDING KF4), empty operands never reach the sweep.",
    design_ref="DESIGN.md 4 C03, 5", note=ORI + GLUE + "Event-count bound and absence of runaway loops for whole calls, 10^6-edge inputs are outside; stack depth is C18. Kani models the debug-assertion build; replays run dev and release profiles.", technique=TECH)
CLAIMS["C04"] = dict(
    text="partial: intersection() on all pairs of lattice segments (N x N window, f32 quick / f64 thorough): points inside both boxes, within tolerance of the exact rational intersection, bit-exact for axis-parallel segments, endpoint hits return the endpoint bit-identically; "
         "possible_intersection divides both segments at that one point and divide_segment creates vertices exactly there; precompute_iteration_order walks only within one vertex.",
    design_ref="DESIGN.md 4 C04", note=ORI + GLUE + "Ring closure, >= 3 vertices, orientation of assembled rings (contour walk) and general-position floats are outside.", technique=TECH)
CLAIMS["C06"] = dict(
    text="partial: (i) empty operands and box-disjoint operands through the dispatch harnesses (an operand without polygons always takes the shortcut; results are the obvious combinations; boxes that merely touch are swept); "
         "(ii) pair-level self-operation/commutativity content of L-CF (a shared edge with equal transitions is kept by exactly intersection and union, and the table is symmetric in the operand tags for the commutative operations); "
         "(iii) subject-first tie-breaks of both orders and the typing of coincident edges (Overlap arm templates).",
    design_ref="DESIGN.md 4 C06", note=ORI + GLUE, technique=TECH)
CLAIMS["C07"] = dict(
    text="partial: the four BooleanOp impls forward identically (Polygon = one-element MultiPolygon on either side, order preserved); per edge, process_polygon yields the same (left, right, operand) event pair whichever way the edge is written, "
         "skips collapsed edges without touching the box, and fill_queue passes every ring on exactly once with the documented ids/flags for all operations.",
    design_ref="DESIGN.md 4 C07", note=ORI + GLUE + "Ring rotation/reversal reduce to the per-edge statements by the independence of edges in process_polygon (paper step). Part order only changes contour ids.", technique=TECH)
CLAIMS["C08"] = dict(
    text="partial: intersection() commutes bit-identically with scaling by 2^k (k in -3..3) on all lattice segment pairs; every run with a non-default VERIF_SEED re-decides all lattice harnesses on an integer-translated and 2^K-scaled window.",
    design_ref="DESIGN.md 4 C08", note=ORI + GLUE + "Mirror / transpose / quarter turn permute code paths of the whole sweep and are outside.", technique=TECH)
CLAIMS["C13"] = dict(
    text="partial, compositional: queue filling per edge (exactly one linked pair, left = smaller endpoint, exact box) and per ring protocol; divide_segment contract; possible_intersection one arm at a time "
         "(None, Point with contract models of its callees; Overlap on 9 interval configurations x 4 directions x operand assignment with the real callees): which segments are split, where, typing and return code.",
    design_ref="DESIGN.md 4 C13", note=ORI + GLUE + "That checking neighbours only suffices for planarity is a paper step; the Overlap templates need ~40 GB each and only two run in the quick tier; the sweep-protocol harness replaces BinaryHeap::pop, SplaySet and the three callees by models (listed in the evidence).", technique=TECH)
CLAIMS["C15"] = dict(
    text="both public orders decided on all pairs of lattice segments: SweepEvent::cmp (any endpoint events, f64 quick / f32 thorough) never Equal, antisymmetric, equal to the reference order (x, y, right-before-left, lower segment first, subject first); "
         "compare_segments Equal iff identical, equal to the vertical order of non-crossing pairs where separated (quick: every ordered pair against the antisymmetric reference; thorough: both argument orders in one query, 4x4 window, f64), subject below for coincident edges; thorough: transitivity of the event order on triples, f32 twins.",
    design_ref="DESIGN.md 4 C15", note=ORI + "Precondition = validity of co-occurring events: two edges of one operand never overlap; no claim for two non-overlapping vertical edges on one abscissa (never in the sweep line together). Bounds: 4x4 (event pairs), 3x3 (segment pairs, quick) lattice window; pairs and triples only; the bubble sort of order_events is outside (harness runs out of memory).", technique=TECH)
CLAIMS["C16"] = dict(
    text="intersection(): None/Point/Overlap exactly as the integer reference on all lattice segment pairs, containment, tolerance, endpoint reuse, argument-order independence; possible_intersection arm by arm (None, Point, Overlap templates); "
         "divide_segment contract incl. the one-ulp lattice where the documented bump is live (KNOWN-FINDING KF4: the two segments get different points).",
    design_ref="DESIGN.md 4 C16", note=ORI + GLUE + "Bound: N x N lattice windows (N = 4 quick, 6 thorough) anywhere below 2^20, not the 2^25 of the property text; general floats outside. Point arm uses contract models of intersection/divide_segment.", technique=TECH)
CLAIMS["C17"] = dict(
    text="the splay map against a sorted-array reference: one harness per update sequence (quick: all queries after insert-insert and insert-remove; thorough: up to four updates), ALL keys (< 4) and values symbolic, so every key order/duplicate/absent key and every tree shape reachable by the sequence is covered: "
         "get/contains/next/prev/min/max/len, BST shape, consuming iteration in mixed directions, and reference stability of lookup results across further lookups.",
    design_ref="DESIGN.md 4 C17", note="Bound: <= 2 updates (quick) / <= 4 updates (thorough) from the empty tree, one operation from every 3-node tree, key universe of 4; long histories and larger trees are outside.", technique=TECH)

_PENDING = "check not built yet in this session (planned, see DESIGN.md 4)"
NOT_APPLICABLE = {
    "C09": "needs two complete sweeps compared, or the sweep-loop glue G-SWEEP; whole calls cannot be executed symbolically (DESIGN.md 1, 4 C09); its local mechanisms are decided under C13 (boxes) and C01/C06 (shortcut)",
    "C11": "a chain is two or three complete BooleanOp calls; none can be executed symbolically (DESIGN.md 1, 4 C11)",
    "C12": "operand immutability is a typing fact (&self, Clone), thread schedules are outside Kani, repeated whole calls cannot be executed (DESIGN.md 4 C12)",
}
for _p in ["C01", "C02", "C03", "C04", "C05", "C06", "C07", "C08", "C13", "C14", "C15", "C16", "C17", "C18"]:
    if _p not in CLAIMS:
        NOT_APPLICABLE[_p] = _PENDING

NOTES = ("All claims are bounded: 'holds for every input inside the stated lattice window / flag space / tree size', decided by the SAT solver; "
         "nothing is claimed outside the bounds listed in each evidence file. Exit 2 = inconclusive (timeout, OOM, vacuous cover, build failure).")
