"""Texts of MANIFEST.json (claims, notes, not-applicable reasons)."""

HOOK_COMMITS = []

TECH = "bounded model checking of the real code (Kani/CBMC, SAT-decided, unwinding assertions on), native replay of counterexamples"

CLAIMS = {
    "C10": dict(
        text="helper::NextAfter proved for ALL finite f32 and f64 inputs (full range, bit-pattern reference); every lattice harness "
             "of the float kernels is instantiated at both F=f32 and F=f64 (named in the evidence). Bounded claim, not a proof of whole calls.",
        design_ref="DESIGN.md 4 C10",
        note="Trusted: Kani/CBMC float semantics (IEEE-754 bit-precise), robust::orient2d replaced by the exact determinant on lattice inputs. "
             "Outside: whole calls in f32, general-position floats.",
        technique=TECH,
    ),
}

_PENDING = "check not built yet in this session (planned, see DESIGN.md 4)"
NOT_APPLICABLE = {
    "C09": "needs two complete sweeps compared, or the sweep-loop glue G-SWEEP; whole calls cannot be executed symbolically (DESIGN.md 1, 4 C09); its local mechanisms are decided under C13 (boxes) and C01/C06 (shortcut)",
    "C11": "a chain is two or three complete BooleanOp calls; none can be executed symbolically (DESIGN.md 1, 4 C11)",
    "C12": "operand immutability is a typing fact (&self, Clone), thread schedules are outside Kani, repeated whole calls cannot be executed (DESIGN.md 4 C12)",
}
for _p in ["C01", "C02", "C03", "C04", "C05", "C06", "C07", "C08", "C13", "C14", "C15", "C16", "C17", "C18"]:
    if _p not in CLAIMS:
        NOT_APPLICABLE[_p] = _PENDING

NOTES = ("All claims are bounded: 'holds for every input inside the stated lattice window / flag space / tree size', decided by the SAT solver; "
         "nothing is claimed outside the bounds listed in each evidence file. Exit 2 = inconclusive (timeout, OOM, vacuous cover, build failure).")
