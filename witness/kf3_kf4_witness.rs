// Native witnesses (public API only) of the open findings KF3 and KF4 (they FAIL on the current tree).
// Copy to lib/tests/kf3_kf4_witness.rs and run: cargo test --offline -p geo-booleanop --test kf3_kf4_witness [--release]
use geo_booleanop::boolean::possible_intersection::possible_intersection;
use geo_booleanop::boolean::sweep_event::SweepEvent;
use geo_booleanop::boolean::BooleanOp;
use geo_types::{Coord, LineString, MultiPolygon, Polygon};
use std::collections::BinaryHeap;
use std::rc::{Rc, Weak};

fn poly(p: &[(f64, f64)]) -> Polygon<f64> {
    Polygon::new(LineString(p.iter().map(|&(x, y)| Coord { x, y }).collect()), vec![])
}

/// KF3: panics (release: index out of bounds in connect_edges.rs; debug: "Sweep line misses event to be removed")
#[test]
fn kf3_unassigned_contour_id() {
    let a = MultiPolygon(vec![poly(&[(0., 1.), (2., 5.), (1., 4.), (0., 1.)]), poly(&[(2., 2.), (5., 1.), (4., 5.), (2., 2.)])]);
    let b = MultiPolygon(vec![
        poly(&[(3., 4.), (4.111111111111111, 4.555555555555555), (4., 5.), (3., 5.), (3., 4.)]),
        poly(&[(4., 5.), (4.142857142857143, 4.571428571428571), (5., 5.), (4., 5.)]),
        poly(&[(4.111111111111111, 4.555555555555555), (5., 1.), (5., 2.), (4.142857142857143, 4.571428571428571), (4.111111111111111, 4.555555555555555)]),
    ]);
    let _ = a.difference(&b);
}

fn seg(l: (f64, f64), r: (f64, f64), subject: bool) -> (Rc<SweepEvent<f64>>, Rc<SweepEvent<f64>>) {
    let re = SweepEvent::new_rc(0, Coord { x: r.0, y: r.1 }, false, Weak::new(), subject, true);
    let le = SweepEvent::new_rc(0, Coord { x: l.0, y: l.1 }, true, Rc::downgrade(&re), subject, true);
    re.set_other_event(&le);
    (le, re)
}
/// KF4: the two segments are split at different points
#[test]
fn kf4_one_ulp_bump() {
    let eps = f64::EPSILON;
    let (la, _ra) = seg((1., 1.), (1. + eps, 0.), true);
    let (lb, _rb) = seg((0., 0.5), (2., 0.5), false);
    let mut q = BinaryHeap::new();
    let r = possible_intersection(&lb, &la, &mut q);
    assert_eq!(r, 1);
    let pa = la.get_other_event().unwrap().point;
    let pb = lb.get_other_event().unwrap().point;
    assert_eq!(pa, pb, "both segments must be split at one common point");
}
