// Native witnesses (public API only) of the defects KF1, KF2, KF5 of the pinned tree.
// Copy to lib/tests/kf_witness.rs and run: cargo test --offline -p geo-booleanop --test kf_witness
use geo_booleanop::boolean::BooleanOp;
use geo_booleanop::splay::SplayTree;
use geo_types::{Coord, LineString, MultiPolygon, Polygon};

fn ring(p: &[(f64, f64)]) -> LineString<f64> {
    let mut v: Vec<Coord<f64>> = p.iter().map(|&(x, y)| Coord { x, y }).collect();
    v.push(v[0]);
    LineString(v)
}
fn poly(ext: &[(f64, f64)], holes: &[&[(f64, f64)]]) -> Polygon<f64> {
    Polygon::new(ring(ext), holes.iter().map(|h| ring(h)).collect())
}

/// KF1: a part of a multipolygon touches a vertical edge of another part; an inner triangle of the
/// other operand must come back as a hole of the xor, not as a third polygon.
#[test]
fn kf1_vertical_predecessor_same_operand() {
    let a = MultiPolygon(vec![
        poly(&[(0., 0.), (1., 0.), (1., 3.), (0., 3.)], &[]),
        poly(&[(1., 1.), (2., 0.5), (2., 2.)], &[]),
    ]);
    let b = poly(&[(1.5, 1.), (1.8, 0.9), (1.8, 1.2)], &[]);
    let r = a.xor(&b);
    let holes: usize = r.0.iter().map(|p| p.interiors().len()).sum();
    assert_eq!((r.0.len(), holes), (2, 1), "xor must be two polygons, one of them with the inner triangle as hole: {:?}", r);
}

/// KF2: operands share their bottom edge; the hole of A must stay a hole of the intersection.
#[test]
fn kf2_shared_edge_transition() {
    let a = poly(
        &[(0., 0.), (4., 0.), (4., 4.), (0., 4.)],
        &[&[(1., 1.), (1., 2.), (2., 2.), (2., 1.)]],
    );
    let b = poly(&[(0., 0.), (4., 0.), (4., 5.), (0., 5.)], &[]);
    let r = a.intersection(&b);
    let holes: usize = r.0.iter().map(|p| p.interiors().len()).sum();
    assert_eq!((r.0.len(), holes), (1, 1), "A intersect B must be A (one polygon with one hole): {:?}", r);
}

/// KF5: dropping / clearing / partially consuming a degenerate (chain-shaped) tree on a 2 MiB stack.
#[test]
fn kf5_teardown_stack() {
    let child = std::thread::Builder::new()
        .stack_size(2 * 1024 * 1024)
        .spawn(|| {
            let n = 1_000_000;
            let mut t = SplayTree::new(|a: &i32, b: &i32| a.cmp(b));
            for i in 0..n {
                t.insert(i, ());
            }
            drop(t);
            let mut t = SplayTree::new(|a: &i32, b: &i32| a.cmp(b));
            for i in 0..n {
                t.insert(i, ());
            }
            t.clear();
            for i in 0..n {
                t.insert(i, ());
            }
            let mut it = t.into_iter();
            it.next_back();
            drop(it);
        })
        .unwrap();
    assert!(child.join().is_ok());
}
